"""C07 — Build-file restraints hold for every residue they select.

Statement (properties.jsonl, fixed):
  "Every generated residue satisfies all geometric restraints (inside/outside sphere, cylinder,
   rectangle) and growth-direction restrictions declared for it. For each distance restraint,
   ring-shaped molecule declared cyclic (d = 0 between the two residues joined by the closing edge) or
   sampled persistence-length end-to-end distance, the restrained pair ends within
   [d - tol, d + tol + one average residue-pair size] under the minimum-image convention, and sampled
   end-to-end distances lie between one step and the contour length."

Two layers.

(1) Correspondence of the hand-written Lean model (Model/Restraints.lean) with the real functions, on
    dyadic inputs (exact in double, boundaries hit exactly):
      regions      in_sphere / in_cylinder / in_rectangle / fulfill_geometrical_constraints
      direction    is_restricted
      milestones   RandomWalk.checks_milestones over a real NonBondEngine (pbc_min_dist, get_point)
      tree         MetaMolecule.search_tree for dfs = True / False (the model takes the constructor name
                   from the translated table, so this stream also validates the translator live)
      setdr        restraints.set_distance_restraint on the real search tree (bounds on every path node)
      arange       the candidate grid of persistence.generate_end_end_distances
      ring         real ring MetaMolecule vs Restraints.ringAdj / ringTree (the objects of C07_cycle_closing)
      accept       ONE trial of RandomWalk.update_positions (bundle of one vector, maxiter 0) vs Restraints.acceptStep
      avg          graph_utils.compute_avg_step_length / _compute_path_length_cartesian (tree edges, arbitrary edge
                   lists incl. the empty one), is_branched, restraints.set_restraints (a fake topology carrying
                   distance_restraints; per-node entries compared as sorted lists: the registration order is not
                   observable), persistence.sample_end_to_end_distances for one batch (generate_end_end_distances
                   replaced in-process by the harness' samples, set_distance_restraint wrapped: which molecule of
                   the batch receives which sample, with which avg / contour) — every residue has its own size
      boundary     EXHAUSTIVE: every ordering comparison of the five restraint tests below / exactly on / above its
                   boundary (all axes and signs), through the regions / milestones / direction streams
      table        the generated comparison table (Generated/RestraintTables.lean, read from the source by
                   harness/tables/restraints.py) vs the behaviour of the live functions on boundary points
(2) End-to-end oracle: complete random builds with the real gen_coords / BuildSystem (interposed only to
    read the residue positions after run_system, the arguments of set_distance_restraint and the sampled
    end-to-end distances).  Every selected residue is checked against the build-file description with the
    Lean SPECIFICATION (driver ops spec_*): regions, growth direction, distance windows
    [d - tol, d + tol + avg] with avg recomputed independently from the pair sizes of the tree edges,
    ring closure over the graph edge that is not a tree edge, sampled end-to-end distances.

    The flavours `*-renumbered` give every molecule type residue ids with an offset and gaps, listed in an order that
    does not ascend with the listing order; residues are selected by (name, resid in [start, stop)) whatever the node
    order.  Tie `declared-regions-registered`: the region restraints attached to every residue node (`restraints`
    attribute, the state the walk consults) are exactly those the build file declares for it.

Trusted / modelled: float sqrt/arccos of numpy (inputs of the predicate streams are dyadic and kept away
from the angle boundary; the oracle widens every region by 1e-9), networkx traversal orders (tied by the
tree stream), scipy KD-tree and the LJ overlap test (opaque booleans in the model), numpy.random.

Growth direction: since fix b739cad `update_positions` judges the trial step itself; the oracle judges the
minimum-image step between parent and child residue (equal to the trial step for steps shorter than half
a box edge), ALSO for steps that cross a box face — the generator builds short chains in small boxes for
this.  Known finding in the default stream: a second `[ rw_restriction ]` line of a `[ molecule ]` block
replaces the first (shape rw-restriction-overwritten, listed in known_findings.txt; a violation of the LAST
line or of anything else is reported normally).
"""
import fractions
import json
import math
import os
import random
import signal
import tempfile

import common
from common import rat_str, frac

RULE = ("predicate streams on dyadic grids incl. exact boundary hits (regions x in/out/other token, direction "
        "x angles of both signs, milestones with unplaced references, random connected graphs x dfs flag x "
        "root, distance restraints on tree paths of any length incl. reversed and branched pairs, arange "
        "grids, average step / contour on random graphs with per-residue sizes, persistence batches of 1-3 "
        "molecules, all 10 comparison operators x {below, on, above} exhaustively); end-to-end: random systems of 1-2 molecule types, chains 2-40 / rings 3-30, build files with "
        "every restraint kind in/out, ranges, tolerances, rw_restriction, distance_restraints, "
        "persistence_length, -cycles with cycle_tol; a case is non-trivial when it exercises at least one "
        "restraint; distinct = full input description")

EPS = fractions.Fraction(1, 10 ** 9)
CRASH_TYPES = ("IndexError", "KeyError", "TypeError", "AttributeError", "UnboundLocalError", "NameError",
               "ZeroDivisionError", "AssertionError", "RecursionError")


# ------------------------------------------------------------------------------------------ helpers

def v3(vec):
    return [rat_str(x) for x in vec]


def dy(rng, lo, hi, bits=3):
    return float(common.dyadic(rng, lo, hi, bits))


def sig9(x):
    """9 significant digits; a value that is zero up to the rounding of a float difference (|x| < 1e-12, e.g. the lower
    bound `d/k*i - tol` of a distance restraint when the two terms are equal) is zero"""
    x = float(x)
    return 0.0 if abs(x) < 1e-12 else float("%.9g" % x)


Timeout = common.CaseTimeout


def _alarm(*_args):
    raise Timeout()


# ------------------------------------------------------------------------------------------ (1) predicates

def gen_region(rng):
    kind = rng.choice(["sphere", "cylinder", "rectangle"])
    io = rng.choice(["in", "out"]) if rng.random() < 0.9 else rng.choice(["inside", "IN", "o"])
    c = [dy(rng, 0, 8, 1) for _ in range(3)]
    npar = {"sphere": 1, "cylinder": 2, "rectangle": 3}[kind]
    params = [dy(rng, 0, 4, 1) if rng.random() < 0.9 else dy(rng, -2, 0, 1) for _ in range(npar)]
    return dict(kind=kind, io=io, c=c, params=params)


def region_json(reg):
    return dict(kind=reg["kind"], io=reg["io"], c=v3(reg["c"]), params=[rat_str(x) for x in reg["params"]])


def real_region_params(reg):
    import numpy as np
    return [reg["io"], np.array(reg["c"], dtype=float)] + [float(x) for x in reg["params"]] + [reg["kind"]]


def case_regions(rng):
    regs = [gen_region(rng) for _ in range(rng.randint(0, 4))]
    if regs and rng.random() < 0.7:
        base = rng.choice(regs)["c"]
        p = [b + rng.choice([-3, -2, -1.5, -1, -0.5, 0, 0.5, 1, 1.5, 2, 3, 4]) for b in base]
    else:
        p = [dy(rng, 0, 8, 1) for _ in range(3)]
    return dict(stream="regions", p=p, regions=regs, key=rng.random() < 0.9)


def run_regions(case):
    import numpy as np
    from polyply.src import random_walk as rw
    p = np.array(case["p"], dtype=float)
    params = [real_region_params(r) for r in case["regions"]]
    each = [bool(rw.RESTRAINT_METHODS[r["kind"]](p, par)) for r, par in zip(case["regions"], params)]
    node = {"restraints": params} if (params or case.get("key", True)) else {}
    allv = bool(rw.fulfill_geometrical_constraints(p, node))
    req = dict(op="regions", p=v3(case["p"]), regions=[region_json(r) for r in case["regions"]])
    return dict(each=each, all=allv), req


ANGLES = [30.0, 45.0, 60.0, 75.0, 90.0, 100.0, 120.0, 135.0, 150.0, 170.0, 180.0, 10.5, 0.0]


def case_direction(rng):
    normal = [float(rng.choice([-2, -1, 0, 0, 1, 2, 0.5])) for _ in range(3)]
    if not any(normal):
        normal[rng.randrange(3)] = 1.0
    old = [dy(rng, 0, 6, 2) for _ in range(3)]
    new = [o + rng.choice([-1.5, -1, -0.5, -0.25, 0, 0.25, 0.5, 1, 1.5]) for o in old]
    if new == old:
        new[0] += 0.5
    angle = rng.choice(ANGLES) * rng.choice([1, 1, -1])
    return dict(stream="direction", normal=normal, old=old, new=new, angle=angle,
                mode=rng.choice(["one", "one", "one", "none", "two"]))


def rw_option_json(normal, angle):
    sgn = 0 if angle == 0 else (1 if angle > 0 else -1)
    return dict(normal=v3(normal), sgn=sgn, cos=rat_str(math.cos(math.radians(abs(angle)))))


def run_direction(case):
    import numpy as np
    from polyply.src import random_walk as rw
    from polyply.src.linalg_functions import _vector_angle_degrees
    normal = np.array(case["normal"], dtype=float)
    old, new = np.array(case["old"], dtype=float), np.array(case["new"], dtype=float)
    if case["mode"] == "none":
        node, opt = {}, None
    else:
        opts = [[normal, case["angle"]]]
        if case["mode"] == "two":
            opts.append([-normal, -case["angle"]])    # only the first entry is consulted
        node, opt = {"rw_options": opts}, rw_option_json(case["normal"], case["angle"])
    with np.errstate(invalid="ignore"):
        impl = bool(rw.is_restricted(new, old, node))
    step = [frac(n) - frac(o) for n, o in zip(case["new"], case["old"])]
    near = False
    if opt is not None:
        with np.errstate(invalid="ignore"):
            ang = float(_vector_angle_degrees(normal, new - old))
        # nan: exactly (anti)parallel vectors whose float cosine leaves [-1, 1] (every comparison false)
        near = abs(ang - abs(case["angle"])) < 1e-6 or math.isnan(ang)
    req = dict(op="direction", opt=opt, step=[rat_str(x) for x in step])
    return dict(res=impl), req, near


def case_milestones(rng):
    box = [float(rng.choice([3, 4, 5, 6.5])) for _ in range(3)]
    nref = rng.randint(1, 4)
    refs = []
    for k in range(nref):
        placed = rng.random() < 0.8
        refs.append([dy(rng, 0, b - 0.25, 2) for b in box] if placed else None)
    p = [dy(rng, 0, b - 0.25, 2) for b in box]
    drs = []
    for _ in range(rng.randint(0, 3)):
        ref = rng.randrange(nref)
        lb = dy(rng, -1, 3, 2)
        ub = lb + dy(rng, 0, 3, 2) if rng.random() < 0.9 else dy(rng, -1, 1, 2)
        drs.append([ref, ub, lb])
    return dict(stream="milestones", box=box, refs=refs, p=p, drs=drs)


def run_milestones(case):
    import numpy as np
    import networkx as nx
    from polyply.src.random_walk import RandomWalk
    from polyply.src.nonbond_engine import NonBondEngine
    nref = len(case["refs"])
    positions = np.ones((nref + 1, 3)) * np.inf
    for k, pos in enumerate(case["refs"]):
        if pos is not None:
            positions[k] = pos
    box = np.array(case["box"], dtype=float)
    engine = NonBondEngine(positions, {(0, k): k for k in range(nref + 1)}, ["A"] * (nref + 1), {}, {}, None,
                           cut_off=1.0, boxsize=box)
    mol = nx.Graph()
    mol.add_nodes_from(range(nref + 1))
    if case["drs"] or True:
        mol.nodes[nref]["distance_restraints"] = [tuple(d) for d in case["drs"]]
    walker = RandomWalk(0, engine)
    walker.molecule = mol
    impl = bool(walker.checks_milestones(nref, np.array(case["p"], dtype=float)))
    req = dict(op="milestones", box=v3(case["box"]), p=v3(case["p"]),
               drs=[[d[0], rat_str(d[1]), rat_str(d[2])] for d in case["drs"]],
               pos=[[k, v3(pos) if pos is not None else None] for k, pos in enumerate(case["refs"])])
    return dict(res=impl), req



# ------------------------------------------------------------------------------------------ one trial step

def _wrap(x, l):
    x, l = fractions.Fraction(x), fractions.Fraction(l)
    return x - l * (x / l).__floor__()


def _mi_sq(a, b, box):
    tot = fractions.Fraction(0)
    for x, y, l in zip(a, b, box):
        d = _wrap(fractions.Fraction(x) - fractions.Fraction(y), l)
        d = min(d, fractions.Fraction(l) - d)
        tot += d * d
    return tot


def case_accept(rng):
    """ONE trial of the real `RandomWalk.update_positions` (a bundle of one vector, maxiter 0) for a residue with
    region restraints, a growth-direction restriction and distance restraints, grown from a residue that
    often sits next to a box face so that the trial step crosses it: which of the wrapped / unwrapped end point
    each test looks at is then observable"""
    box = [float(rng.choice([3, 4, 5, 6.5])) for _ in range(3)]
    last = [dy(rng, 0, b - 0.125, 3) for b in box]
    for k in range(3):
        if rng.random() < 0.45:
            last[k] = rng.choice([dy(rng, 0, 0.5, 3), box[k] - dy(rng, 0.125, 0.5, 3)])
    while True:
        vec = [rng.choice([-1.0, -0.5, 0.0, 0.0, 0.5, 1.0]) for _ in range(3)]
        if any(vec):
            break
    length = rng.choice([0.5, 0.75, 1.0, 1.25])
    step = [v * length for v in vec]
    unwrapped = [a + b for a, b in zip(last, step)]
    wrapped = [float(_wrap(u, b)) for u, b in zip(unwrapped, box)]
    regions = []
    for _ in range(rng.choice([0, 1, 1, 2])):
        reg = gen_region(rng)
        base = rng.choice([wrapped, unwrapped, unwrapped])
        reg["c"] = [b + rng.choice([-1, -0.5, -0.25, 0, 0, 0.25, 0.5, 1]) for b in base]
        reg["params"] = [rng.choice([0.25, 0.5, 0.75, 1.0, 1.5]) for _ in reg["params"]]
        if reg["io"] not in ("in", "out"):
            reg["io"] = rng.choice(["in", "out"])
        regions.append(reg)
    opt = None
    if rng.random() < 0.35:
        normal = [0.0, 0.0, 0.0]
        normal[rng.randrange(3)] = rng.choice([-1.0, 1.0])
        opt = dict(normal=normal, angle=rng.choice([60.0, 90.0, 120.0, 150.0]) * rng.choice([1, -1]))
    ref, drs = None, []
    if rng.random() < 0.4:
        for _ in range(20):
            cand = [dy(rng, 0, b - 0.125, 2) for b in box]
            if _mi_sq(cand, wrapped, box) >= fractions.Fraction(1, 4) and _mi_sq(cand, last, box) >= fractions.Fraction(1, 4):
                ref = cand
                break
        if ref is not None:
            for _ in range(rng.randint(1, 2)):
                lb = dy(rng, 0, 2.5, 2)
                drs.append([2, lb + dy(rng, 0, 2.5, 2), lb])
    return dict(stream="accept", box=box, last=last, vec=vec, length=length, regions=regions, opt=opt, ref=ref, drs=drs)


def run_accept(case):
    import numpy as np
    import networkx as nx
    import vermouth.forcefield
    import vermouth.molecule
    from polyply.src.meta_molecule import MetaMolecule
    from polyply.src.random_walk import RandomWalk
    from polyply.src.nonbond_engine import NonBondEngine
    from polyply.src.linalg_functions import _vector_angle_degrees
    box = np.array(case["box"], dtype=float)
    positions = np.ones((3, 3)) * np.inf
    positions[0] = case["last"]
    if case["ref"] is not None:
        positions[2] = case["ref"]
    engine = NonBondEngine(positions, {(0, k): k for k in range(3)}, ["A"] * 3,
                           {frozenset(["A"]): (case["length"], 1.0)}, {}, None, cut_off=1.0, boxsize=box)
    graph = nx.Graph()
    for i in range(3):
        graph.add_node(i, resname="A", resid=i + 1)
    graph.add_edges_from([(0, 1), (2, 0)])
    ff = vermouth.forcefield.ForceField("verif")
    meta = MetaMolecule(graph, force_field=ff, mol_name="m")
    meta.molecule = vermouth.molecule.Molecule(force_field=ff, nrexcl=1)
    meta.root = 0
    if case["regions"]:
        meta.nodes[1]["restraints"] = [real_region_params(r) for r in case["regions"]]
    if case["opt"] is not None:
        meta.nodes[1]["rw_options"] = [[np.array(case["opt"]["normal"], dtype=float), case["opt"]["angle"]]]
    if case["drs"]:
        meta.nodes[1]["distance_restraints"] = [tuple(d) for d in case["drs"]]
    bundle = np.array([case["vec"]], dtype=float)
    walker = RandomWalk(0, engine, maxdim=box, max_force=1e300, step_fudge=1.0, vector_sphere=bundle, maxiter=0)
    walker.molecule = meta
    status = bool(walker.update_positions(bundle, 1, 0))
    row = engine.get_point(0, 1)
    point = None if np.all(row == np.inf) else [rat_str(x) for x in row]
    near = False
    if case["opt"] is not None:
        with np.errstate(invalid="ignore"):
            ang = float(_vector_angle_degrees(np.array(case["opt"]["normal"], dtype=float), bundle[0] * case["length"]))
        near = abs(ang - abs(case["opt"]["angle"])) < 1e-6 or math.isnan(ang)
    step = [frac(v) * frac(case["length"]) for v in case["vec"]]
    req = dict(op="accept", box=v3(case["box"]), last=v3(case["last"]), step=[rat_str(x) for x in step],
               regions=[region_json(r) for r in case["regions"]],
               opt=None if case["opt"] is None else rw_option_json(case["opt"]["normal"], case["opt"]["angle"]),
               drs=[[d[0], rat_str(d[1]), rat_str(d[2])] for d in case["drs"]],
               pos=[[0, v3(case["last"])], [2, v3(case["ref"]) if case["ref"] is not None else None]])
    return dict(res=status, point=point), req, near


def accept_oracle_requests(case, impl):
    """the statement on the real outcome: an accepted residue satisfies its regions AT THE POSITION STORED FOR IT,
    the step taken has the declared direction, and every distance restraint holds at the stored position"""
    if not impl["res"] or impl["point"] is None:
        return []
    p = impl["point"]
    reqs = [dict(op="spec_geom", p=p, regions=[region_json(r) for r in case["regions"]], eps=rat_str(EPS))]
    for ref, ub, lb in case["drs"]:
        reqs.append(dict(op="spec_window", a=p, b=v3(case["ref"]), box=v3(case["box"]),
                         lo=rat_str(frac(lb) - EPS), hi=rat_str(frac(ub) + EPS)))
    return reqs




def case_tree(rng, nmax=9):
    n = rng.randint(2, nmax)
    shape = rng.choice(["tree", "tree", "path", "ring", "graph"])
    edges = []
    if shape == "path":
        edges = [(i, i + 1) for i in range(n - 1)]
    elif shape == "ring" and n >= 3:
        edges = [(i, (i + 1) % n) for i in range(n)]
    else:
        for i in range(1, n):
            edges.append((rng.randrange(i), i))
        if shape == "graph":
            for _ in range(rng.randint(1, 3)):
                a, b = rng.sample(range(n), 2)
                if (a, b) not in edges and (b, a) not in edges:
                    edges.append((a, b))
    rng.shuffle(edges)
    edges = [list(e) if rng.random() < 0.5 else [e[1], e[0]] for e in edges]
    ops = []
    for _ in range(rng.randint(1, 3)):
        a, b = rng.sample(range(n), 2)
        ops.append(dict(target=a, ref=b, d=dy(rng, 0, 4, 2), avg=dy(rng, 0.25, 1.5, 2), tol=dy(rng, 0, 0.5, 2)))
    if rng.random() < 0.05:
        ops.append(dict(target=0, ref=0, d=1.0, avg=0.5, tol=0.0))
    return dict(stream="tree", n=n, edges=edges, root=rng.randrange(n), dfs=rng.random() < 0.5, ops=ops)


def real_meta(n, edges):
    import networkx as nx
    from polyply.src.meta_molecule import MetaMolecule
    graph = nx.Graph()
    graph.add_nodes_from(range(n))
    graph.add_edges_from(edges)
    return MetaMolecule(graph, mol_name="m")


def canon_store(pairs):
    return [[int(node), [[int(r[0]), sig9(r[1]), sig9(r[2])] for r in rs]] for node, rs in sorted(pairs) if rs]


def run_tree(case):
    from polyply.src import restraints
    mol = real_meta(case["n"], [tuple(e) for e in case["edges"]])
    mol.root = case["root"]
    mol.dfs = case["dfs"]
    adj = [[int(v), [int(w) for w in mol.neighbors(v)]] for v in mol.nodes]
    edges = [[int(u), int(v)] for u, v in mol.search_tree.edges]
    impl_tree = dict(edges=edges, closing=[edges[0][0], edges[-1][1]] if edges else None)
    impl_set = None
    if case["ops"]:
        try:
            for op in case["ops"]:
                restraints.set_distance_restraint(mol, op["target"], op["ref"], op["d"], op["avg"], op["tol"])
            impl_set = dict(ok=True, store=canon_store((v, mol.nodes[v].get("distance_restraints", []))
                                                       for v in mol.nodes))
        except (OSError, IndexError, KeyError, ZeroDivisionError):
            # the code means to raise OSError for a branched pair; its message template is malformed and
            # raises KeyError instead (noted in notes/C07_findings.md): both are "reject"
            impl_set = dict(ok=False)
    reqs = [dict(op="tree", dfs=case["dfs"], adj=adj, root=case["root"]),
            dict(op="setdr", tree=edges,
                 ops=[dict(target=o["target"], ref=o["ref"], d=rat_str(o["d"]), avg=rat_str(o["avg"]),
                           tol=rat_str(o["tol"])) for o in case["ops"]])]
    return impl_tree, impl_set, reqs


def model_store(ans):
    if not ans["ok"]:
        return dict(ok=False)
    return dict(ok=True, store=canon_store((v, [[r[0], float(fractions.Fraction(r[1])), float(fractions.Fraction(r[2]))]
                                                for r in rs]) for v, rs in ans["store"]))


def case_arange(rng):
    avg = dy(rng, 0.25, 1.5, 3)
    m = rng.randint(1, 40)
    extra = rng.choice([0, 0, 0.125, -0.125, 0.5]) if m > 1 else rng.choice([0, 0.125])
    return dict(stream="arange", avg=avg, contour=avg * m + extra, nmol=rng.randint(1, 3), seed=rng.randint(0, 999))


def run_arange(case):
    import numpy as np
    from polyply.src import persistence
    from polyply.src.build_file_parser import PersistenceSpecs
    seen = {}

    def capture(ee_distances, r_max, lp):
        seen["cand"] = [float(x) for x in ee_distances]
        return np.ones(len(ee_distances))
    persistence.DISTRIBUTIONS["VERIF"] = capture
    try:
        specs = PersistenceSpecs("VERIF", 1.0, 0, 1, list(range(case["nmol"])))
        try:
            samples = persistence.generate_end_end_distances(specs, case["avg"], case["contour"],
                                                             np.array([1e3, 1e3, 1e3]), seed=case["seed"])
            samples = [float(x) for x in samples]
        except ValueError:
            samples = None            # empty candidate list: np.random.choice refuses
    finally:
        del persistence.DISTRIBUTIONS["VERIF"]
    impl = dict(values=[rat_str(x) for x in seen.get("cand", [])])
    req = dict(op="arange", avg=rat_str(case["avg"]), contour=rat_str(case["contour"]))
    return impl, samples, req


def run_ring(case):
    n = case["n"]
    mol = real_meta(n, [(i, i + 1) for i in range(n - 1)] + [(n - 1, 0)])
    mol.dfs = case["dfs"]
    adj = [[int(v), [int(w) for w in mol.neighbors(v)]] for v in mol.nodes]
    edges = [[int(u), int(v)] for u, v in mol.search_tree.edges]
    impl = dict(adj=adj, edges=edges, closing=[edges[0][0], edges[-1][1]])
    return impl, dict(op="ring", n=n, dfs=case["dfs"])


# ------------------------------------------------------------------------------------------ average step, batches

def case_avg(rng):
    """graph_utils.compute_avg_step_length / _compute_path_length_cartesian / is_branched, restraints.set_restraints
    and the batch bookkeeping of persistence.sample_end_to_end_distances on one random residue graph whose residues
    all have their own size (pair sizes are dyadic: sums are exact in double)"""
    n = rng.randint(2, 8)
    shape = rng.choice(["tree", "path", "path", "ring", "graph"])
    if shape == "path":
        edges = [(i, i + 1) for i in range(n - 1)]
    elif shape == "ring" and n >= 3:
        edges = [(i, (i + 1) % n) for i in range(n)]
    else:
        edges = [(rng.randrange(i), i) for i in range(1, n)]
        if shape == "graph":
            for _ in range(rng.randint(1, 2)):
                a, b = rng.sample(range(n), 2)
                if (a, b) not in edges and (b, a) not in edges:
                    edges.append((a, b))
    rng.shuffle(edges)
    uniform = rng.random() < 0.25
    one = dy(rng, 0.25, 1.5, 3)
    sizes = [[u, v, one if uniform else dy(rng, 0.25, 1.5, 3)] for u in range(n) for v in range(u, n)]
    declared = []
    for _ in range(rng.randint(0, 3)):
        a, b = rng.sample(range(n), 2)
        if any({a, b} == {d["ref"], d["target"]} for d in declared):
            continue
        declared.append(dict(ref=a, target=b, d=dy(rng, 0, 4, 2), tol=dy(rng, 0, 0.5, 2)))
    start, stop = rng.sample(range(n), 2)
    if rng.random() < 0.05:
        stop = start
    nmol = rng.randint(1, 3)
    free = [[rng.randrange(n), rng.randrange(n)] for _ in range(rng.choice([0, 0, 1, 3, 6]))]
    return dict(stream="avg", n=n, edges=[list(e) for e in edges], sizes=sizes, dfs=rng.random() < 0.5,
                root=rng.randrange(n), declared=declared, start=start, stop=stop, nmol=nmol,
                mol_order=rng.sample(range(nmol), nmol), samples=[dy(rng, 0.25, 4, 2) for _ in range(nmol)],
                free_path=free)


def _avg_engine(case):
    import numpy as np
    from polyply.src.nonbond_engine import NonBondEngine
    n, nmol = case["n"], case["nmol"]
    inter = {frozenset(["T%d" % u, "T%d" % v]): (float(size), 1.0) for u, v, size in case["sizes"]}
    positions = np.ones((nmol * n + 1, 3)) * np.inf
    positions[-1] = [1.0, 1.0, 1.0]
    idx = {(m, k): m * n + k for m in range(nmol) for k in range(n)}
    idx[(nmol, 0)] = nmol * n
    atypes = ["T%d" % k for _ in range(nmol) for k in range(n)] + ["T0"]
    return NonBondEngine(positions, idx, atypes, inter, {}, None, cut_off=1.0, boxsize=np.array([50.0, 50.0, 50.0]))


def _fl(x):
    return rat_str(float(x))


def run_avg(case):
    """returns [(stream name, impl, request, converter)]"""
    import types
    import numpy as np
    from polyply.src import graph_utils, restraints, persistence
    from polyply.src.build_file_parser import PersistenceSpecs
    engine = _avg_engine(case)
    edges = [tuple(e) for e in case["edges"]]
    sizes = [[u, v, rat_str(size)] for u, v, size in case["sizes"]]

    def fresh(root):
        mol = real_meta(case["n"], edges)
        mol.root = root
        mol.dfs = case["dfs"]
        return mol

    def avg_model(ans):
        if not ans.get("ok"):
            return dict(ok=False)
        return dict(ok=True, avg=_fl(fractions.Fraction(ans["avg"])), contour=ans["contour"])

    out = []
    mol = fresh(case["root"])
    tree = [[int(u), int(v)] for u, v in mol.search_tree.edges]
    for path in (tree, case["free_path"]):
        try:
            avg, contour = graph_utils.compute_avg_step_length(mol, 0, engine, [tuple(e) for e in path])
            impl = dict(ok=True, avg=_fl(avg), contour=rat_str(contour))
        except ZeroDivisionError:
            impl = dict(ok=False)
        out.append(("avgstep", impl, dict(op="avgstep", sizes=sizes, path=path), avg_model))
    adj = [[int(v), [int(w) for w in mol.neighbors(v)]] for v in mol.nodes]
    out.append(("is-branched", dict(res=bool(graph_utils.is_branched(mol))), dict(op="branched", adj=adj),
                lambda a: dict(res=a["res"])))

    # restraints.set_restraints: every declared pair is registered with the average over all tree edges
    def sorted_store(pairs):
        return [[node, sorted(rs)] for node, rs in canon_store(pairs)]
    topology = types.SimpleNamespace(molecules=[mol], distance_restraints={
        ("m", 0): {(d["ref"], d["target"]): (d["d"], d["tol"]) for d in case["declared"]}})
    try:
        restraints.set_restraints(topology, engine)
        impl = dict(ok=True, store=sorted_store((v, mol.nodes[v].get("distance_restraints", [])) for v in mol.nodes))
    except (OSError, IndexError, KeyError, ZeroDivisionError):
        impl = dict(ok=False)

    def store_model(ans):
        if not ans.get("ok"):
            return dict(ok=False)
        return dict(ok=True, store=sorted_store(
            (v, [[r[0], float(fractions.Fraction(r[1])), float(fractions.Fraction(r[2]))] for r in rs])
            for v, rs in ans["store"]))
    out.append(("set-restraints", impl, dict(op="setrestraints", tree=tree, sizes=sizes,
                                             declared=[dict(ref=d["ref"], target=d["target"], d=rat_str(d["d"]),
                                                            tol=rat_str(d["tol"])) for d in case["declared"]]),
                store_model))

    # persistence.sample_end_to_end_distances: one batch; the sampled distances are supplied by the harness
    mols = [fresh(None) for _ in range(case["nmol"])]
    order = list(case["mol_order"])
    seen = dict(calls=[])
    orig_gen, orig_sdr = persistence.generate_end_end_distances, persistence.set_distance_restraint

    def gen(specs, avg_step_length, max_path_length, box, **kwargs):
        seen["avg"], seen["contour"] = float(avg_step_length), float(max_path_length)
        return np.array([float(x) for x in case["samples"]][:len(specs.mol_idxs)])

    def sdr(molecule, target_node, ref_node, distance, avg_step_length, tolerance):
        who = [i for i, m in enumerate(mols) if m is molecule]
        seen["calls"].append([who[0] if who else -1, int(target_node), int(ref_node), rat_str(distance),
                              _fl(avg_step_length), rat_str(tolerance)])
        return orig_sdr(molecule, target_node, ref_node, distance, avg_step_length, tolerance)
    persistence.generate_end_end_distances, persistence.set_distance_restraint = gen, sdr
    try:
        topology = types.SimpleNamespace(molecules=mols, persistences=[
            PersistenceSpecs("WCM", 1.0, case["start"], case["stop"], order)])
        try:
            persistence.sample_end_to_end_distances(topology, engine)
            impl = dict(ok=True, avg=_fl(seen["avg"]), contour=rat_str(seen["contour"]), calls=seen["calls"])
        except (IndexError, ZeroDivisionError, OSError, KeyError):
            impl = dict(ok=False)
    finally:
        persistence.generate_end_end_distances, persistence.set_distance_restraint = orig_gen, orig_sdr
    btree = [[int(u), int(v)] for u, v in mols[order[0]].search_tree.edges]

    def batch_model(ans):
        if not ans.get("ok"):
            return dict(ok=False)
        return dict(ok=True, avg=_fl(fractions.Fraction(ans["avg"])), contour=ans["contour"],
                    calls=[[c[0], c[1], c[2], c[3], _fl(fractions.Fraction(c[4])), rat_str(0.0)] for c in ans["calls"]])
    out.append(("ee-batch", impl, dict(op="eebatch", tree=btree, sizes=sizes, start=case["start"], stop=case["stop"],
                                       mols=order, samples=[rat_str(x) for x in case["samples"]]), batch_model))
    return out


# ------------------------------------------------------------------------------------------ boundary cases

def boundary_cases():
    """EXHAUSTIVE: every ordering comparison of the restraint tests (the ten entries of Generated/RestraintTables)
    below, exactly on and above its boundary, along every axis / sign the test distinguishes; dyadic numbers"""
    cases = []
    centre = [4.0, 4.0, 4.0]
    offs = (1.5, 2.0, 2.5)

    def shifted(axis, x):
        p = list(centre)
        p[axis] -= x
        return p
    for io in ("in", "out"):
        for axis in range(3):
            for sign in (1, -1):
                for x in offs:
                    cases.append(dict(stream="regions", boundary=True, p=shifted(axis, sign * x), key=True,
                                      regions=[dict(kind="sphere", io=io, c=centre, params=[2.0])]))
        # cylinder: the radius decides (point inside the slab), along x and y
        for axis in (0, 1):
            for sign in (1, -1):
                for x in offs:
                    cases.append(dict(stream="regions", boundary=True, p=shifted(axis, sign * x), key=True,
                                      regions=[dict(kind="cylinder", io=io, c=centre, params=[2.0, 1.0])]))
        # cylinder: the height decides (point inside the radius), both signs of the z difference and of h
        for sign in (1, -1):
            for h in (1.0, -1.0):
                for z in (0.5, 1.0, 1.5):
                    cases.append(dict(stream="regions", boundary=True, p=shifted(2, sign * z), key=True,
                                      regions=[dict(kind="cylinder", io=io, c=centre, params=[2.0, h])]))
        for axis in range(3):
            for sign in (1, -1):
                for x in (0.5, 1.0, 1.5):
                    cases.append(dict(stream="regions", boundary=True, p=shifted(axis, sign * x), key=True,
                                      regions=[dict(kind="rectangle", io=io, c=centre, params=[1.0, 1.0, 1.0])]))
    for which in ("upper", "lower"):
        for axis in range(3):
            for dist in offs:
                p = [4.0, 4.0, 4.0]
                p[axis] += dist
                drs = [[0, 2.0, 0.0]] if which == "upper" else [[0, 8.0, 2.0]]
                cases.append(dict(stream="milestones", boundary=True, box=[16.0, 16.0, 16.0], refs=[[4.0, 4.0, 4.0]],
                                  p=p, drs=drs))
    # growth direction: a step exactly antiparallel to the normal makes the angle 180.0 exactly
    for axis in range(3):
        normal = [0.0, 0.0, 0.0]
        normal[axis] = 1.0
        new = [1.0, 1.0, 1.0]
        new[axis] = 0.0
        for ref in (180.0, 179.5):
            cases.append(dict(stream="direction", boundary=True, normal=normal, old=[1.0, 1.0, 1.0], new=new,
                              angle=-ref, mode="one"))
    return cases


def run_table():
    """the generated comparison table against the behaviour of the live functions (probe of harness/tables/restraints)"""
    from tables import restraints as provider
    live = provider.probe_live()
    return {k: live[k] for k in provider.KEYS}, dict(op="table")


# ------------------------------------------------------------------------------------------ (2) end to end

def write_top(path, desc):
    with open(path, "w") as out:
        out.write("[ defaults ]\n1 1 no 1.0 1.0\n[ atomtypes ]\n")
        for mt in desc["moltypes"]:
            out.write("P%s 72.0 0.0 A %g 0.1\n" % (mt["name"], mt.get("sigma", 0.4)))
        for mt in desc["moltypes"]:
            out.write("[ moleculetype ]\n%s 1\n[ atoms ]\n" % mt["name"])
            if mt.get("split"):
                # the topology BEFORE `-split`: residues of two particles A, B; `mt` describes the molecule after it
                nres = len(mt["resnames"]) // 2
                bonds = []
                for i in range(nres):
                    first = 2 * i + 1
                    out.write("%d P%s %d %s A %d 0.0 72.0\n" % (first, mt["name"], i + 1, mt["split"], first))
                    out.write("%d P%s %d %s B %d 0.0 72.0\n" % (first + 1, mt["name"], i + 1, mt["split"], first + 1))
                    bonds.append((first, first + 1))
                    if i:
                        bonds.append((first - 1, first))
                out.write("[ bonds ]\n")
                for a, b in bonds:
                    out.write("%d %d 1 0.47 1250\n" % (a, b))
                continue
            for i, resname in enumerate(mt["resnames"], start=1):
                out.write("%d P%s %d %s B %d 0.0 72.0\n" % (i, mt["name"], resid_of(mt, i - 1), resname, i))
            if mt["bonds"]:
                out.write("[ bonds ]\n")
                for a, b in mt["bonds"]:
                    out.write("%d %d 1 0.47 1250\n" % (a + 1, b + 1))
        out.write("[ system ]\nverif\n[ molecules ]\n")
        for name, count in desc["molecules"]:
            out.write("%s %d\n" % (name, count))


def g(x):
    return repr(float(x))


def write_bld(path, desc):
    with open(path, "w") as out:
        for blk in desc["build"]:
            out.write("[ molecule ]\n%s %d %d\n" % (blk["mol"], blk["frm"], blk["to"]))
            for item in blk["items"]:
                kind = item["kind"]
                if kind in ("sphere", "cylinder", "rectangle"):
                    out.write("[ %s ]\n%s %d %d %s %s %s\n" % (
                        kind, item["resname"], item["start"], item["stop"], item["io"],
                        " ".join(g(x) for x in item["c"]), " ".join(g(x) for x in item["params"])))
                elif kind == "rw":
                    out.write("[ rw_restriction ]\n%s %d %d %s %s\n" % (
                        item["resname"], item["start"], item["stop"],
                        " ".join(g(x) for x in item["normal"]), g(item["angle"])))
                elif kind == "dist":
                    out.write("[ distance_restraints ]\n%d %d %s %s\n" % (item["ref"], item["target"],
                                                                          g(item["d"]), g(item["tol"])))
                elif kind == "persist":
                    out.write("[ persistence_length ]\nWCM %s %d %d\n" % (g(item["lp"]), item["start"], item["stop"]))
        if desc.get("volumes"):
            out.write("[ volumes ]\n")
            for name, vol in desc["volumes"]:
                out.write("%s %s\n" % (name, g(vol)))


def build(desc, seed, timeout):
    """run the REAL gen_coords on the described system; returns what was observed"""
    import numpy as np
    from pathlib import Path
    from polyply.src import gen_coords as gc, restraints, persistence, build_system
    cap = dict(setdr=[], ee=[])
    orig_run = build_system.BuildSystem.run_system
    orig_sdr = restraints.set_distance_restraint
    orig_gen = persistence.generate_end_end_distances
    orig_sample = build_system.sample_end_to_end_distances

    def sample(topology, nonbond_matrix, *args, **kwargs):
        try:
            return orig_sample(topology, nonbond_matrix, *args, **kwargs)
        finally:
            # the stretch every sampled distance belongs to, measured independently of the code under test:
            # the path start..stop in the residue graph of the molecule itself, pair sizes from the engine
            import networkx as nx
            for rec in cap["ee"]:
                own = []
                for mol_idx in rec["mol_idxs"]:
                    try:
                        path = nx.shortest_path(topology.molecules[mol_idx], rec["start"], rec["stop"])
                        sizes = [float(nonbond_matrix.get_interaction(mol_idx, mol_idx, u, v)[0])
                                 for u, v in zip(path[:-1], path[1:])]
                        own.append([sum(sizes) / len(sizes), sum(sizes)])
                    except Exception:  # pylint: disable=broad-except
                        own.append(None)
                rec["own"] = own

    def run_system(self, molecules):
        out = orig_run(self, molecules)
        cap["topology"] = self.topology
        cap["nb"] = self.nonbond_matrix
        cap["box"] = [float(x) for x in self.box]
        cap["pos"] = [{n: [float(x) for x in m.nodes[n]["position"]] for n in m.nodes}
                      for m in self.topology.molecules]
        return out

    def sdr(molecule, target_node, ref_node, distance, avg_step_length, tolerance):
        cap["setdr"].append(dict(mol=molecule, target=int(target_node), ref=int(ref_node), d=float(distance),
                                 avg=float(avg_step_length), tol=float(tolerance)))
        return orig_sdr(molecule, target_node, ref_node, distance, avg_step_length, tolerance)

    def gen(specs, avg_step_length, max_path_length, box, **kwargs):
        out = orig_gen(specs, avg_step_length, max_path_length, box, **kwargs)
        cap["ee"].append(dict(avg=float(avg_step_length), contour=float(max_path_length),
                              samples=[float(x) for x in out], start=int(specs.start), stop=int(specs.stop),
                              mol_idxs=[int(i) for i in specs.mol_idxs]))
        return out

    tmp = tempfile.mkdtemp(prefix="c07_")
    top, bld, gro = (os.path.join(tmp, n) for n in ("s.top", "s.bld", "out.gro"))
    write_top(top, desc)
    write_bld(bld, desc)
    build_system.BuildSystem.run_system = run_system
    restraints.set_distance_restraint = sdr
    persistence.set_distance_restraint = sdr
    persistence.generate_end_end_distances = gen
    build_system.sample_end_to_end_distances = sample
    np.random.seed(seed)
    random.seed(seed)
    old_handler = signal.signal(signal.SIGALRM, _alarm)
    signal.setitimer(signal.ITIMER_REAL, timeout, 1.0)
    try:
        gc.gen_coords(toppath=Path(top), outpath=Path(gro), name="verif", build=[Path(bld)],
                      box=np.array(desc["box"], dtype=float), cycles=list(desc.get("cycles", [])),
                      cycle_tol=float(desc.get("cycle_tol", 0.0)), **desc.get("options", {}))
        cap["status"] = "ok"
    except Timeout:
        cap["status"] = "timeout"
    except Exception as err:  # pylint: disable=broad-except
        cap["status"] = "error:" + type(err).__name__
        cap["error"] = str(err)[:300]
    finally:
        signal.setitimer(signal.ITIMER_REAL, 0)
        signal.signal(signal.SIGALRM, old_handler)
        build_system.BuildSystem.run_system = orig_run
        restraints.set_distance_restraint = orig_sdr
        persistence.set_distance_restraint = orig_sdr
        persistence.generate_end_end_distances = orig_gen
        build_system.sample_end_to_end_distances = orig_sample
        for name in os.listdir(tmp):
            os.remove(os.path.join(tmp, name))
        os.rmdir(tmp)
    if cap["status"] == "ok" and "pos" not in cap:
        cap["status"] = "error:no-run-system"
    return cap


def mol_instances(desc):
    """[(mol_idx, moltype)] in topology order"""
    types = {mt["name"]: mt for mt in desc["moltypes"]}
    out = []
    for name, count in desc["molecules"]:
        for _ in range(count):
            out.append((len(out), types[name]))
    return out


def resid_of(mt, node):
    """residue id of the node-th residue listed in the itp: `resids` if the type declares its own numbering (any order,
    need not ascend with the node order), else node + 1"""
    return mt["resids"][node] if mt.get("resids") else node + 1


def selected(item, mt, node):
    """the build-file selection: residue name and resid in [start, stop)"""
    return mt["resnames"][node] == item["resname"] and item["start"] <= resid_of(mt, node) < item["stop"]


def oracle_requests(desc, cap):
    """Build the specification requests for one finished build.  Returns (requests, judges): judges[i]
    turns answer i into None (holds) or (shape, text)."""
    reqs, judges = [], []
    box = cap["box"]
    topology, engine = cap["topology"], cap["nb"]
    crossing = 0
    trees = {}
    for mol_idx, mt in mol_instances(desc):
        mol = topology.molecules[mol_idx]
        trees[mol_idx] = [(int(u), int(v)) for u, v in mol.search_tree.edges]
    # -- regions and direction
    for blk in desc["build"]:
        for mol_idx, mt in mol_instances(desc):
            if mt["name"] != blk["mol"] or not blk["frm"] <= mol_idx < blk["to"]:
                continue
            pos = cap["pos"][mol_idx]
            parent = {v: u for u, v in trees[mol_idx]}
            rw_items = [it for it in blk["items"] if it["kind"] == "rw"]
            for node in range(len(mt["resnames"])):
                regs = [it for it in blk["items"] if it["kind"] in ("sphere", "cylinder", "rectangle")
                        and selected(it, mt, node)]
                if regs:
                    reqs.append(dict(op="spec_geom", p=v3(pos[node]), regions=[region_json(r) for r in regs],
                                     eps=rat_str(EPS)))

                    def judge(ans, regs=regs, mol_idx=mol_idx, node=node, p=pos[node]):
                        bad = [r for r, ok in zip(regs, ans["each"]) if not ok]
                        if bad:
                            return ("region-violated", "residue %d of molecule %d at %s violates %s"
                                    % (node, mol_idx, p, bad[0]))
                        return None
                    judges.append(judge)
                for it in rw_items:
                    if not selected(it, mt, node) or node not in parent:
                        continue
                    raw = [frac(a) - frac(b) for a, b in zip(pos[node], pos[parent[node]])]
                    mim = [x - frac(l) * round(x / frac(l)) for x, l in zip(raw, box)]
                    if raw != mim:
                        crossing += 1
                    reqs.append(dict(op="spec_dir", opt=rw_option_json(it["normal"], it["angle"]),
                                     step=[rat_str(x) for x in mim]))

                    def judge(ans, it=it, mol_idx=mol_idx, node=node, raw=raw, mim=mim, par=parent[node],
                              last=it is rw_items[-1]):
                        if ans["res"]:
                            return None
                        # tolerate the float boundary of the angle test
                        ang = angle_deg(it["normal"], [float(x) for x in mim])
                        if abs(ang - abs(it["angle"])) < 1e-6:
                            return None
                        shape = "direction-across-pbc" if raw != mim else "direction-violated"
                        if not last:
                            shape = "rw-restriction-overwritten"
                        return (shape, "step %d -> %d of molecule %d is %s (minimum image; raw difference %s), "
                                "angle to normal %s = %.3f deg, restriction %s"
                                % (par, node, mol_idx, [float(x) for x in mim], [float(x) for x in raw],
                                   it["normal"], ang, it["angle"]))
                    judges.append(judge)
    # -- distance restraints, rings, persistence
    def avg_over(mol_idx, edges):
        sizes = [float(engine.get_interaction(mol_idx, mol_idx, u, v)[0]) for u, v in edges]
        return sum(sizes) / len(sizes)

    def window(mol_idx, a, b, d, tol, avg, shape, what):
        pos = cap["pos"][mol_idx]
        reqs.append(dict(op="spec_window", a=v3(pos[a]), b=v3(pos[b]), box=v3(box),
                         lo=rat_str(frac(d) - frac(tol) - EPS), hi=rat_str(frac(d) + frac(tol) + frac(avg) + EPS)))

        def judge(ans):
            if ans["res"]:
                return None
            dist = math.sqrt(float(fractions.Fraction(ans["sq"])))
            return (shape, "%s: residues %d and %d of molecule %d end at minimum-image distance %.4f, window "
                    "[%.4f, %.4f] (d=%s tol=%s avg=%.4f)" % (what, a, b, mol_idx, dist, d - tol, d + tol + avg,
                                                             d, tol, avg))
        judges.append(judge)

    for blk in desc["build"]:
        for mol_idx, mt in mol_instances(desc):
            if mt["name"] != blk["mol"] or not blk["frm"] <= mol_idx < blk["to"]:
                continue
            for it in blk["items"]:
                if it["kind"] == "dist":
                    window(mol_idx, it["ref"], it["target"], it["d"], it["tol"], avg_over(mol_idx, trees[mol_idx]),
                           "distance-window", "distance restraint %s" % it)
    for name in desc.get("cycles", []):
        for mol_idx, mt in mol_instances(desc):
            if mt["name"] != name:
                continue
            mol = topology.molecules[mol_idx]
            adj = [[int(v), [int(w) for w in mol.neighbors(v)]] for v in mol.nodes]
            reqs.append(dict(op="spec_ring", adj=adj, tree=[list(e) for e in trees[mol_idx]]))
            judges.append(("ring", mol_idx))
    ee_reqs, ee_judges = ee_requests(cap)
    reqs += ee_reqs
    judges += ee_judges
    for rec in cap["ee"]:
        for mol_idx, dist in zip(rec["mol_idxs"], rec["samples"]):
            if mol_idx >= len(cap["pos"]):
                continue
            mol = topology.molecules[mol_idx]
            path = tree_path(trees[mol_idx], rec["start"], rec["stop"])
            if path is None:
                continue
            avg = avg_over(mol_idx, list(zip(path[:-1], path[1:])))
            window(mol_idx, rec["start"], rec["stop"], dist, 0.0, avg, "persistence-window",
                   "sampled end-to-end distance %.4f" % dist)
    return reqs, judges, crossing


def ee_requests(cap):
    """every sampled end-to-end distance against one step and the contour length of ITS OWN stretch"""
    reqs, judges = [], []
    for rec in cap["ee"]:
        for mol_idx, x, own in zip(rec["mol_idxs"], rec["samples"], rec.get("own") or []):
            if own is None:
                continue
            avg, contour = own
            reqs.append(dict(op="spec_ee", avg=rat_str(avg), contour=rat_str(contour), xs=[rat_str(x)]))

            def judge(ans, rec=rec, mol_idx=mol_idx, x=x, avg=avg, contour=contour):
                k = x / avg
                if not ans["each"][0] and not abs(x - avg) < 1e-9 * avg:
                    return ("ee-out-of-range", "molecule %d, stretch %d..%d: sampled end-to-end distance %.4f is not in "
                            "[one step %.4f, contour length %.4f) of that stretch (the code sampled with step %.4f, "
                            "contour %.4f)" % (mol_idx, rec["start"], rec["stop"], x, avg, contour, rec["avg"],
                                               rec["contour"]))
                if abs(k - round(k)) > 1e-6 or round(k) < 1:
                    return ("ee-off-grid", "molecule %d, stretch %d..%d: sampled end-to-end distance %r is not a "
                            "multiple of the step %r of that stretch" % (mol_idx, rec["start"], rec["stop"], x, avg))
                return None
            judges.append(judge)
    return reqs, judges


def tree_path(tree, start, stop):
    parent = {v: u for u, v in tree}
    path = [stop]
    while path[-1] != start:
        if path[-1] not in parent:
            return None
        path.append(parent[path[-1]])
    return path[::-1]


def angle_deg(normal, step):
    dot = sum(a * b for a, b in zip(normal, step))
    nn = math.sqrt(sum(a * a for a in normal)) * math.sqrt(sum(b * b for b in step))
    if nn == 0:
        return float("nan")
    return math.degrees(math.acos(max(-1.0, min(1.0, dot / nn))))


# -- generators of systems

STEP = 0.8    # approximate residue-pair size of the one-bead residues used here (read exactly from the run)


def chain_type(rng, name, n, ring=False):
    names = ["R" + name, "Q" + name]
    pattern = rng.choice(["one", "one", "alt", "block"])
    if pattern == "one":
        resnames = [names[0]] * n
    elif pattern == "alt":
        resnames = [names[i % 2] for i in range(n)]
    else:
        cut = rng.randint(1, n)
        resnames = [names[0]] * cut + [names[1]] * (n - cut)
    bonds = [(i, i + 1) for i in range(n - 1)]
    if ring:
        bonds.append((n - 1, 0))
        if rng.random() < 0.5:
            rng.shuffle(bonds)
        bonds = [b if rng.random() < 0.7 else (b[1], b[0]) for b in bonds]
    return dict(name=name, resnames=resnames, bonds=bonds, ring=ring, sigma=rng.choice([0.3, 0.4, 0.5]))


def gen_geom_item(rng, mt, box):
    n = len(mt["resnames"])
    kind = rng.choice(["sphere", "cylinder", "rectangle"])
    io = rng.choice(["in", "out"])
    resname = rng.choice(sorted(set(mt["resnames"])))
    start = rng.randint(1, n)
    stop = rng.randint(start + 1, n + 1)
    if rng.random() < 0.4:
        start, stop = 1, n + 1
    c = [box / 2 + rng.choice([-0.5, 0, 0, 0.5]) for _ in range(3)]
    if io == "in":
        size = box * rng.choice([0.4, 0.45, 0.5])
    else:
        size = box * rng.choice([0.1, 0.15, 0.2])
    params = {"sphere": [size], "cylinder": [size, size * rng.choice([0.8, 1.0])],
              "rectangle": [size, size * rng.choice([0.8, 1.0]), size]}[kind]
    return dict(kind=kind, resname=resname, start=start, stop=stop, io=io, c=c, params=params)


def gen_system(rng, flavour, thorough):
    desc = dict(moltypes=[], molecules=[], build=[], options={})
    if flavour == "ring":
        n = rng.choice([3, 4, 5, 6, rng.randint(3, 12), rng.randint(3, 30 if thorough else 16)])
        mt = chain_type(rng, "A", n, ring=True)
        count = rng.choice([1, 1, 2])
        box = max(6.0, round(n * STEP / 2 + 4))
        desc.update(moltypes=[mt], molecules=[("A", count)], box=[box] * 3, cycles=["A"],
                    cycle_tol=rng.choice([0.0, 0.1, 0.2, 0.3, 0.5]))
        if rng.random() < 0.3:
            other = chain_type(rng, "B", rng.randint(2, 5))
            desc["moltypes"].append(other)
            desc["molecules"].append(("B", 1))
        # a cyclic molecule may carry further build-file restraints: every declared one has to hold
        items = []
        if n >= 5 and rng.random() < 0.7:
            for _ in range(rng.choice([1, 1, 2])):
                a = rng.randrange(n)
                r = rng.randint(2, n // 2)
                b = (a + r) % n
                if any({it["ref"], it["target"]} == {a, b} for it in items):
                    continue
                d = round(rng.choice([0.5, 0.65, 0.8, 0.85]) * r * STEP, 2)
                pair = (a, b) if rng.random() < 0.5 else (b, a)
                items.append(dict(kind="dist", ref=pair[0], target=pair[1], d=d, tol=rng.choice([0.0, 0.0, 0.1])))
        if rng.random() < 0.25:
            items.append(dict(kind="sphere", resname=mt["resnames"][0], start=1, stop=n + 1, io="in",
                              c=[box / 2] * 3, params=[box * 0.45]))
        if items:
            desc["build"] = [dict(mol="A", frm=0, to=rng.choice([count, 1]), items=items)]
        desc["options"] = dict(grid_spacing=0.5 if box > 8 else 0.25)
        return desc
    if flavour == "persist":
        n = rng.choice([rng.randint(4, 12), rng.randint(4, 40 if thorough else 20)])
        mt = chain_type(rng, "A", n)
        types, molecules = [mt], []
        count = rng.choice([1, 2, 3, 4])
        molecules.append(("A", count))
        if rng.random() < 0.4:
            # a second molecule type with the SAME residue names and another length
            other = chain_type(rng, "A", rng.randint(4, 12))
            other["name"] = "B"
            types.append(other)
            molecules.append(("B", rng.choice([1, 2])))
        box = float(max(8, int(max(len(t["resnames"]) for t in types) * STEP * 0.9) + 4))

        def stretch(length):
            roll = rng.random()
            if roll < 0.5 or length < 5:
                return 0, length - 1
            if roll < 0.9:
                return 0, rng.randint(2, length - 2)         # a shorter stretch from the first residue
            return rng.randint(0, 1), length - 1 - rng.randint(0, 1)

        blocks, first = [], 0
        for name, cnt in molecules:
            length = len(next(t for t in types if t["name"] == name)["resnames"])
            # the instances of one type are split into one or two batches with their own stretches
            cut = rng.randint(1, cnt - 1) if cnt >= 2 and rng.random() < 0.6 else cnt
            for frm, to in [(first, first + cut), (first + cut, first + cnt)]:
                if frm == to:
                    continue
                start, stop = stretch(length)
                if stop - start < 2:
                    start, stop = 0, length - 1
                blocks.append(dict(mol=name, frm=frm, to=to,
                                   items=[dict(kind="persist", lp=rng.choice([0.5, 1.0, 2.0, 4.0]),
                                               start=start, stop=stop)]))
            first += cnt
        for blk in blocks:
            it = blk["items"][0]
            if it["start"] == 0 and it["stop"] >= 6 and rng.random() < 0.25:
                # a second restraint on the same molecules, inside the restrained stretch
                b = rng.randint(2, 3)
                blk["items"].append(dict(kind="dist", ref=0, target=b, d=round(0.5 * b * STEP, 2), tol=0.3))
        rng.shuffle(blocks)
        desc.update(moltypes=types, molecules=molecules, box=[box] * 3, build=blocks)
        desc["options"] = dict(grid_spacing=1.0 if box > 10 else 0.5)
        return desc
    n = rng.randint(2, 10)
    box = float(rng.choice([6, 7, 8, 10]))
    if flavour == "dir" and rng.random() < 0.7:
        # short chains in a small box: steps cross the box faces
        n = rng.randint(2, 4)
        box = float(rng.choice([2.5, 3, 3.5]))
    mt = chain_type(rng, "A", n)
    count = rng.choice([1, 1, 2])
    items = []
    if flavour in ("geom", "mixed"):
        for _ in range(rng.randint(1, 3)):
            items.append(gen_geom_item(rng, mt, box))
    if flavour in ("dir", "mixed") and (flavour == "dir" or rng.random() < 0.5):
        normal = rng.choice([[0, 0, 1], [0, 0, -1], [1, 0, 0], [0, 1, 0], [1, 1, 0], [1, -1, 1]])
        angle = rng.choice([90.0, 90.0, 60.0, 75.0, 120.0, -100.0, -120.0, -150.0])
        resname = rng.choice(sorted(set(mt["resnames"])))
        start = rng.randint(1, n)
        stop = rng.randint(start + 1, n + 1)
        if rng.random() < 0.35 and stop <= n:
            # known finding rw-restriction-overwritten: only the last line of a block is kept
            items.append(dict(kind="rw", resname=resname, start=start, stop=stop,
                              normal=[float(x) for x in normal], angle=angle))
            start, stop = stop, n + 1
            normal = rng.choice([[0, 0, 1], [1, 0, 0], [0, 1, 0]])
        items.append(dict(kind="rw", resname=resname, start=start, stop=stop,
                          normal=[float(x) for x in normal], angle=angle))
    if flavour in ("dist", "mixed") and n >= 3 and (flavour == "dist" or rng.random() < 0.5):
        a = rng.randint(0, n - 3)
        b = rng.randint(a + 2, n - 1)
        span = (b - a) * STEP
        d = round(rng.uniform(0.3, 0.7) * span, 2)
        pair = (a, b) if rng.random() < 0.7 else (b, a)
        items.append(dict(kind="dist", ref=pair[0], target=pair[1], d=d, tol=rng.choice([0.0, 0.1, 0.3])))
    desc.update(moltypes=[mt], molecules=[("A", count)], box=[box] * 3,
                build=[dict(mol="A", frm=0, to=rng.choice([count, count, 1]), items=items)])
    if rng.random() < 0.3:
        other = chain_type(rng, "B", rng.randint(1, 4))
        desc["moltypes"].append(other)
        desc["molecules"].append(("B", 1))
        if rng.random() < 0.5:
            idx = count
            desc["build"].append(dict(mol="B", frm=idx, to=idx + 1, items=[gen_geom_item(rng, other, box)]))
    if rng.random() < 0.3:
        desc["volumes"] = [(name, rng.choice([0.5, 0.6, 0.7])) for name in sorted(set(mt["resnames"]))]
    desc["options"] = dict(grid_spacing=0.5 if box > 8 else 0.25)
    return desc


def gen_solvent_system(rng):
    """a short chain plus several ONE-residue molecules (solvent, ions) that carry region restraints of their own:
    molecules that consist of a single residue are placed by the start-point test alone"""
    box = float(rng.choice([6, 7, 8]))
    mt = chain_type(rng, "A", rng.randint(2, 5))
    sol = chain_type(rng, "B", 1)
    count = rng.randint(4, 8)
    desc = dict(moltypes=[mt, sol], molecules=[("A", 1), ("B", count)], build=[], options={}, box=[box] * 3)
    item = gen_geom_item(rng, sol, box)
    item["start"], item["stop"] = 1, 2
    if item["io"] == "in":
        # a small region: an unrestrained start point is outside it with high probability
        item["params"] = [p * 0.6 for p in item["params"]]
    else:
        # a large excluded region
        item["params"] = [box * 0.35 for _ in item["params"]]
    desc["build"].append(dict(mol="B", frm=1, to=1 + count, items=[item]))
    if rng.random() < 0.5:
        desc["build"].append(dict(mol="A", frm=0, to=1, items=[gen_geom_item(rng, mt, box)]))
    desc["options"] = dict(grid_spacing=0.25)
    return desc


def nontrivial(desc):
    return bool(desc.get("cycles")) or any(blk["items"] for blk in desc["build"])


# ------------------------------------------------------------------------------------------ running

def predicate_cases(ctx):
    rng = ctx.rng
    cases = []
    cases += [case_regions(rng) for _ in range(ctx.budget(150, 1500))]
    cases += [case_direction(rng) for _ in range(ctx.budget(120, 1200))]
    cases += [case_milestones(rng) for _ in range(ctx.budget(100, 1000))]
    cases += [case_accept(rng) for _ in range(ctx.budget(300, 3000))]
    cases += [case_tree(rng, ctx.budget(9, 14)) for _ in range(ctx.budget(120, 1200))]
    cases += [case_arange(rng) for _ in range(ctx.budget(40, 300))]
    # the streams added later draw from their own generator, so that the cases of the older streams (and of the
    # end-to-end builds) for a given VERIF_SEED stay what they were
    sub = random.Random(("avg", ctx.seed, ctx.pid).__repr__())
    cases += [case_avg(sub) for _ in range(ctx.budget(120, 1500))]
    cases += boundary_cases()
    cases.append(dict(stream="table"))
    for n in list(range(3, 12)) + [rng.randint(12, ctx.budget(40, 120)) for _ in range(3)]:
        for dfs in (True, False):
            cases.append(dict(stream="ring", n=n, dfs=dfs))
    return cases


def run_predicates(ctx, cases):
    """one driver batch for all predicate-level cases"""
    pending, reqs = [], []
    for case in cases:
        stream = case["stream"]
        try:
            if stream == "regions":
                impl, req = run_regions(case)
                pending.append((case, [("regions", impl, lambda a: dict(each=a["each"], all=a["all"]))], 1))
                reqs.append(req)
            elif stream == "direction":
                impl, req, near = run_direction(case)
                if near and not case.get("boundary"):
                    ctx.tally(direction_boundary_skipped=True)
                    continue
                pending.append((case, [("direction", impl, lambda a: dict(res=a["res"]))], 1))
                reqs.append(req)
            elif stream == "milestones":
                impl, req = run_milestones(case)
                pending.append((case, [("milestones", impl, lambda a: dict(res=a["res"]))], 1))
                reqs.append(req)
            elif stream == "accept":
                impl, req, near = run_accept(case)
                if near:
                    ctx.tally(direction_boundary_skipped=True)
                    continue
                extra = accept_oracle_requests(case, impl)
                pending.append((case, [("accept", impl, lambda a: dict(res=a["res"], point=a["point"] if a["res"] else None))]
                                + [("accept-oracle", None, None)] * len(extra), 1 + len(extra)))
                reqs.append(req)
                reqs += extra
            elif stream == "tree":
                impl_tree, impl_set, rq = run_tree(case)
                pending.append((case, [("tree", impl_tree, lambda a: dict(edges=a["edges"], closing=a["closing"])),
                                       ("setdr", impl_set, model_store)], 2))
                reqs += rq
            elif stream == "arange":
                impl, samples, req = run_arange(case)
                pending.append((case, [("arange", impl, lambda a: dict(values=a["values"]))], 1))
                reqs.append(req)
                if samples is not None and not set(rat_str(x) for x in samples) <= set(impl["values"]):
                    ctx.oracle_fail("ee-off-grid", "samples %s are not among the candidates" % samples, case)
            elif stream == "avg":
                parts = run_avg(case)
                pending.append((case, [(name, impl, conv) for name, impl, _, conv in parts], len(parts)))
                reqs += [req for _, _, req, _ in parts]
            elif stream == "table":
                impl, req = run_table()
                pending.append((case, [("comparison-table", impl, lambda a: {k: v for k, v in a.items() if k != "ok"})], 1))
                reqs.append(req)
            elif stream == "ring":
                impl, req = run_ring(case)
                pending.append((case, [("ring", impl, lambda a: dict(adj=a["adj"], edges=a["edges"], closing=a["closing"]))], 1))
                reqs.append(req)
        except Exception as err:  # pylint: disable=broad-except
            ctx.tie_broken("correspondence", "correspondence:%s-crash" % stream,
                           "real code raised %s: %s" % (type(err).__name__, str(err)[:300]), case)
    answers = ctx.driver.ask(reqs)
    pos = 0
    for case, parts, width in pending:
        for (name, impl, conv), ans in zip(parts, answers[pos:pos + width]):
            if impl is None:
                continue
            model = conv(ans) if ans.get("ok") or name in ("setdr", "avgstep", "set-restraints", "ee-batch") \
                else dict(error=ans.get("err"))
            ctx.correspond(name, impl, model, case)
        if case["stream"] == "accept" and width > 1:
            extra = answers[pos + 1:pos + width]
            if not all(a.get("ok") for a in extra):
                ctx.tie_broken("correspondence", "driver:accept-oracle", str(extra)[:300], case)
            else:
                if not all(extra[0]["each"]):
                    ctx.oracle_fail("region_violated", "update_positions accepted %s for a residue whose region restraints %s "
                                    "do not hold there (grown from %s by the step %s x %s in the box %s)"
                                    % (parts[0][1]["point"], case["regions"], case["last"], case["vec"], case["length"],
                                       case["box"]), case)
                for (ref, ub, lb), ans in zip(case["drs"], extra[1:]):
                    if not ans["res"]:
                        ctx.oracle_fail("distance_window", "update_positions accepted %s although its distance to the "
                                        "reference at %s is outside [%s, %s] (box %s)"
                                        % (parts[0][1]["point"], case["ref"], lb, ub, case["box"]), case)
        pos += width
        stream = case["stream"]
        hist = {}
        if stream == "regions":
            hist = dict(regions=len(case["regions"]), accepted=parts[0][1]["all"])
            key = ("regions", json.dumps(case, sort_keys=True)) if case["regions"] else None
        elif stream == "direction":
            hist = dict(direction=case["mode"], dir_accepted=parts[0][1]["res"])
            key = ("direction", json.dumps(case, sort_keys=True)) if case["mode"] != "none" else None
        elif stream == "milestones":
            hist = dict(milestones=len(case["drs"]), ms_accepted=parts[0][1]["res"])
            key = ("milestones", json.dumps(case, sort_keys=True)) if case["drs"] else None
        elif stream == "accept":
            lastp = [fractions.Fraction(x) for x in case["last"]]
            unw = [a + fractions.Fraction(v) * fractions.Fraction(case["length"]) for a, v in zip(lastp, case["vec"])]
            crosses = any(u < 0 or u >= fractions.Fraction(b) for u, b in zip(unw, case["box"]))
            hist = dict(accept_crosses_face=crosses, accept_res=parts[0][1]["res"],
                        accept_kinds="%d regions%s%s" % (len(case["regions"]), "+dir" if case["opt"] else "",
                                                         "+dist" if case["drs"] else ""))
            key = ("accept", json.dumps(case, sort_keys=True)) if (case["regions"] or case["opt"] or case["drs"]) else None
        elif stream == "tree":
            hist = dict(tree_dfs=case["dfs"], setdr=(parts[1][1] or {}).get("ok", "none"))
            key = ("tree", json.dumps(case, sort_keys=True))
        elif stream == "arange":
            hist = dict(arange_len=min(len(parts[0][1]["values"]), 10))
            key = ("arange", json.dumps(case, sort_keys=True))
        elif stream == "avg":
            byname = {name: impl for name, impl, _ in parts}
            hist = dict(avg_set_restraints=byname["set-restraints"].get("ok"), avg_ee_batch=byname["ee-batch"].get("ok"),
                        avg_batch_size=case["nmol"])
            key = ("avg", json.dumps(case, sort_keys=True))
        elif stream == "table":
            hist = dict(comparison_table="10 operators, exhaustive")
            key = ("table",)
        else:
            hist = dict(ring_n="3-11" if case["n"] < 12 else ">=12")
            key = ("ring", case["n"], case["dfs"])
        if case.get("boundary"):
            hist["boundary_exhaustive"] = stream
        ctx.case(key, sample=dict(input=case, impl=parts[0][1]) if stream in ("regions", "tree") else None, **hist)
    ctx.traces += len(pending)


def tighten(sub, desc):
    """make the region restraints of a system bite: `out` regions large enough that an unrestrained residue would often
    lie inside (about a quarter of the box), so that a restraint that is declared but not enforced shows in the
    finished structure"""
    box = desc["box"][0]
    for blk in desc["build"]:
        for it in blk["items"]:
            if it["kind"] in ("sphere", "cylinder", "rectangle") and it["io"] == "out":
                size = box * sub.choice([0.3, 0.35, 0.4])
                it["c"] = [box / 2] * 3
                it["params"] = {"sphere": [size], "cylinder": [size, box], "rectangle": [size * 0.8] * 3}[it["kind"]]
    return desc


def renumber(sub, desc):
    """give every molecule type its own residue numbering (legal in an itp): ids that start at an offset and may have
    gaps, listed in an order that does NOT ascend with the order of the residues in the file — a rotation (the first
    residues carry the highest ids), the reverse order, or a random permutation.  The residue ranges of the build-file
    lines of that type are translated to the new ids (position p of 1..n -> p-th smallest id), so they keep selecting
    by residue id what they selected before."""
    for mt in desc["moltypes"]:
        n = len(mt["resnames"])
        if n < 2:
            continue
        ids = [sub.choice([1, 1, sub.randint(2, 20)])]
        for _ in range(n - 1):
            ids.append(ids[-1] + sub.choice([1, 1, 1, 2, 3]))

        def to_id(p, ids=ids, n=n):
            return ids[p - 1] if p <= n else ids[-1] + 1
        for blk in desc["build"]:
            if blk["mol"] == mt["name"]:
                for it in blk["items"]:
                    if it["kind"] in ("sphere", "cylinder", "rectangle", "rw"):
                        it["start"], it["stop"] = to_id(it["start"]), to_id(it["stop"])
        kind = sub.choice(["rotate", "rotate", "reverse", "shuffle", "diblock"])
        block = None
        if kind == "diblock" and n >= 4:
            # REPEATED residue ids inside one molecule (two blocks numbered alike): polyply identifies a residue by
            # (resid, resname), so the two residues that share an id must differ in their name — a build-file line
            # then selects the copy with its name only
            k = sub.randint(2, n - 2)
            cand = ids[:k] + ids[:n - k] if n - k <= k else ids[:n - k][:k] + ids[:n - k]
            pairs = [(r, name) for r, name in zip(cand, mt["resnames"])]
            if len(set(pairs)) == len(pairs):
                block = cand
        if block is not None:
            ids = block
        elif kind == "rotate" or kind == "diblock":
            k = sub.randint(1, n - 1)
            ids = ids[k:] + ids[:k]
        elif kind == "reverse":
            ids.reverse()
        else:
            sub.shuffle(ids)
        mt["resids"] = ids
    # the same molecule name on a second, non-adjacent [ molecules ] line (its instances get later molecule indices,
    # which the [ molecule ] blocks of the build file do or do not cover)
    if len(desc["molecules"]) >= 2 and sub.random() < 0.5:
        desc["molecules"].append((desc["molecules"][0][0], 1))
    return desc


def gen_shared_reference(sub):
    """one chain with SEVERAL distance restraints that share their reference residue, with nested paths, listed in
    either order (longer first / shorter first), pairs written in either direction, sometimes a further restraint
    with another reference; the shorter one is tight, so that it shows in the finished structure when not enforced"""
    n = sub.randint(8, 14)
    mt = chain_type(sub, "A", n)
    ref = sub.choice([0, 0, 1])
    b1 = sub.randint(ref + 3, n - 4)
    b2 = sub.randint(b1 + 2, n - 1)
    short = dict(kind="dist", ref=ref, target=b1, d=round(sub.choice([0.25, 0.3, 0.35]) * (b1 - ref) * STEP, 2),
                 tol=sub.choice([0.1, 0.2]))
    long_ = dict(kind="dist", ref=ref, target=b2, d=round(sub.choice([0.45, 0.5, 0.55]) * (b2 - ref) * STEP, 2),
                 tol=sub.choice([0.3, 0.5]))
    items = [long_, short] if sub.random() < 0.6 else [short, long_]
    if b1 - ref >= 5 and sub.random() < 0.4:
        b0 = sub.randint(ref + 2, b1 - 2)
        items.insert(sub.randrange(3), dict(kind="dist", ref=ref, target=b0,
                                            d=round(0.4 * (b0 - ref) * STEP, 2), tol=0.2))
    if sub.random() < 0.3:
        items.append(dict(kind="dist", ref=b1, target=b2, d=round(0.5 * (b2 - b1) * STEP, 2), tol=0.5))
    for it in items:
        if sub.random() < 0.25:
            it["ref"], it["target"] = it["target"], it["ref"]
    count = sub.choice([1, 1, 2])
    box = float(max(8, int(n * STEP * 0.7) + 3))
    return dict(moltypes=[mt], molecules=[("A", count)], box=[box] * 3,
                build=[dict(mol="A", frm=0, to=count, items=items)], options=dict(grid_spacing=0.5))


def gen_split_system(sub):
    """the option pair `-split` + build file: a chain of two-particle residues is split into one-particle residues
    (names SA, SB alternating, numbered 0..2n-1 by the program), and the build file restrains the residues that exist
    AFTER the split — regions and a growth direction, selected by the new names and ids"""
    npre = sub.randint(2, 5)
    n = 2 * npre
    mt = dict(name="A", resnames=["SA", "SB"] * npre, bonds=[(i, i + 1) for i in range(n - 1)], ring=False,
              sigma=sub.choice([0.3, 0.4, 0.5]), split="RS", resids=list(range(n)))
    box = float(sub.choice([6, 7, 8]))
    items = []
    for _ in range(sub.randint(1, 2)):
        it = gen_geom_item(sub, mt, box)
        it["start"], it["stop"] = it["start"] - 1, it["stop"] - 1          # ids start at 0 after the split
        items.append(it)
    if sub.random() < 0.6:
        start = sub.randint(0, n - 1)
        items.append(dict(kind="rw", resname=sub.choice(["SA", "SB"]), start=start, stop=sub.randint(start + 1, n),
                          normal=[float(x) for x in sub.choice([[0, 0, 1], [1, 0, 0], [0, 1, 0], [1, 1, 0]])],
                          angle=sub.choice([90.0, 75.0, 60.0, -120.0])))
    count = sub.choice([1, 1, 2])
    desc = dict(moltypes=[mt], molecules=[("A", count)], box=[box] * 3,
                build=[dict(mol="A", frm=0, to=count, items=items)],
                options=dict(grid_spacing=0.25, split=["RS:SA-A:SB-B"]))
    return desc


def e2e_cases(ctx):
    rng = ctx.rng
    flavours = ["geom", "dir", "dist", "ring", "persist", "mixed", "dir", "ring"]
    count = ctx.budget(128, 1200)
    cases = []
    for i in range(count):
        flavour = flavours[i % len(flavours)]
        cases.append(dict(stream="e2e", flavour=flavour, desc=gen_system(rng, flavour, ctx.thorough),
                          seed=rng.randint(0, 10 ** 6)))
    # residue ids that do not ascend with the listing order (own generator: the cases above stay what they were);
    # run FIRST, so that the time limit of the end-to-end part never drops this input dimension
    sub = random.Random(("resid-order", ctx.seed, ctx.pid).__repr__())
    renumbered = []
    for i in range(ctx.budget(24, 200)):
        flavour = ["geom", "dir", "mixed", "geom"][i % 4]
        renumbered.append(dict(stream="e2e", flavour=flavour + "-renumbered",
                               desc=tighten(sub, renumber(sub, gen_system(sub, flavour, ctx.thorough))),
                               seed=sub.randint(0, 10 ** 6)))
    for i in range(ctx.budget(12, 120)):
        renumbered.append(dict(stream="e2e", flavour="dist-shared-ref", desc=gen_shared_reference(sub),
                               seed=sub.randint(0, 10 ** 6)))
    for i in range(ctx.budget(12, 120)):
        renumbered.append(dict(stream="e2e", flavour="split+build-file", desc=tighten(sub, gen_split_system(sub)),
                               seed=sub.randint(0, 10 ** 6)))
    for i in range(ctx.budget(6, 60)):
        renumbered.insert(i, dict(stream="e2e", flavour="solvent", desc=gen_solvent_system(sub), seed=sub.randint(0, 10 ** 6)))
    cases = renumbered + cases
    return cases


def run_e2e(ctx, cases, timeout=None):
    timeout = timeout or ctx.budget(6.0, 20.0)
    done, reqs = [], []
    import time
    # the end-to-end part gets what is left of the budget, but never less than a floor: on a loaded machine the proof
    # build and the predicate streams can use up the whole budget before the first build starts
    deadline = max(ctx.t0 + ctx.budget(60, 780), time.time() + ctx.budget(25, 120))
    for case in cases:
        if time.time() > deadline:
            ctx.tally(e2e_skipped_for_time=True)
            continue
        desc = case["desc"]
        cap = build(desc, case["seed"], timeout)
        status = cap["status"]
        if status != "ok":
            ctx.case(None, flavour=case["flavour"], build=status)
            if status.startswith("error") and not cap.get("error", "").startswith("Sampling the end-to-end"):
                ctx.tally(build_error=cap.get("error", "")[:80])
                # an infeasible restraint mix is refused with IOError / ValueError (counted, not judged); an
                # IndexError / KeyError / TypeError / ... on a valid build file is the program breaking on its own
                # bookkeeping: no residue of that system satisfies anything
                if status.split(":", 1)[-1] in CRASH_TYPES:
                    ctx.oracle_fail("build_crashed", "gen_coords raised %s (%s) on a valid system with flavour %s: no "
                                    "restrained residue is generated" % (status.split(":", 1)[-1], cap.get("error", "")[:120],
                                                                         case["flavour"]), case)
            # the build did not finish (no residue positions to judge), the sampled distances are still judged
            rq, judges = ee_requests(cap)
            if rq:
                done.append((case, cap, len(reqs), len(rq), judges, None, 0))
                reqs += rq
            continue
        rq, judges, crossing = oracle_requests(desc, cap)
        # correspondence inside the build: the tree and the stored restraints of every molecule
        topology = cap["topology"]
        extra = []
        for mol_idx, mt in mol_instances(desc):
            mol = topology.molecules[mol_idx]
            adj = [[int(v), [int(w) for w in mol.neighbors(v)]] for v in mol.nodes]
            edges = [[int(u), int(v)] for u, v in mol.search_tree.edges]
            ops = [o for o in cap["setdr"] if o["mol"] is mol]
            impl_tree = dict(edges=edges, closing=[edges[0][0], edges[-1][1]] if edges else None)
            impl_set = dict(ok=True, store=canon_store((v, mol.nodes[v].get("distance_restraints", []))
                                                       for v in mol.nodes))
            extra.append((impl_tree, impl_set if ops else None, mol_idx))
            rq.append(dict(op="tree", dfs=bool(mol.dfs), adj=adj, root=int(mol.root)))
            rq.append(dict(op="setdr", tree=edges,
                           ops=[dict(target=o["target"], ref=o["ref"], d=rat_str(o["d"]), avg=rat_str(o["avg"]),
                                     tol=rat_str(o["tol"])) for o in ops]))
            want_ops = sorted([it["ref"], it["target"], sig9(it["d"]), sig9(it["tol"])] for blk in desc["build"]
                              if blk["mol"] == mt["name"] and blk["frm"] <= mol_idx < blk["to"]
                              for it in blk["items"] if it["kind"] == "dist")
            got_ops = sorted([o["ref"], o["target"], sig9(o["d"]), sig9(o["tol"])] for o in ops)
            got_declared = [o for o in got_ops if o in want_ops]
            ctx.correspond("declared-restraints-registered", got_declared, want_ops, case)
            # every region restraint the build file declares for a residue (molecule name and index range, residue
            # name, residue id in [start, stop)) is attached to that residue: what is not attached is never enforced
            want_regions, got_regions = [], []
            for node in range(len(mt["resnames"])):
                want = sorted([it["kind"], it["io"], [sig9(x) for x in it["c"]], [sig9(x) for x in it["params"]]]
                              for blk in desc["build"] if blk["mol"] == mt["name"] and blk["frm"] <= mol_idx < blk["to"]
                              for it in blk["items"] if it["kind"] in ("sphere", "cylinder", "rectangle")
                              and selected(it, mt, node))
                got = sorted([str(r[-1]), str(r[0]), [sig9(x) for x in r[1]], [sig9(x) for x in r[2:-1]]]
                             for r in mol.nodes[node].get("restraints", []))
                if want or got:
                    want_regions.append([node, want])
                    got_regions.append([node, got])
            if want_regions or got_regions:
                ctx.correspond("declared-regions-registered", got_regions, want_regions, case)
            if mt["name"] in desc.get("cycles", []):
                declared = [[it["ref"], it["target"]] for blk in desc["build"]
                            if blk["mol"] == mt["name"] and blk["frm"] <= mol_idx < blk["to"]
                            for it in blk["items"] if it["kind"] == "dist"]
                pairs = [list(k) for k in topology.distance_restraints[(mt["name"], mol_idx)]
                         if list(k) not in declared]
                extra[-1] = extra[-1] + (pairs,)
        done.append((case, cap, len(reqs), len(rq), judges, extra, crossing))
        reqs += rq
    answers = ctx.driver.ask(reqs)
    for case, cap, off, width, judges, extra, crossing in done:
        desc = case["desc"]
        ans = answers[off:off + width]
        checked = 0
        for judge, a in zip(judges, ans):
            if isinstance(judge, tuple):           # ring: closing edges from the specification
                mol_idx = judge[1]
                closing = a["closing"]
                tree = [(int(u), int(v)) for u, v in cap["topology"].molecules[mol_idx].search_tree.edges]
                sizes = [float(cap["nb"].get_interaction(mol_idx, mol_idx, u, v)[0]) for u, v in tree]
                avg = sum(sizes) / len(sizes)
                tol = float(desc["cycle_tol"])
                for u, v in closing:
                    dist = min_image(cap["pos"][mol_idx][u], cap["pos"][mol_idx][v], cap["box"])
                    checked += 1
                    if dist > tol + avg + 1e-9:
                        ctx.oracle_fail("ring-open", "ring molecule %d (n=%d, cycle_tol=%s): residues %d and %d joined "
                                        "by the ring-closing edge end %.4f apart, allowed %.4f (tol + avg %.4f)"
                                        % (mol_idx, len(cap["pos"][mol_idx]), tol, u, v, dist, tol + avg, avg), case)
                continue
            verdict = judge(a)
            checked += 1
            if verdict is not None:
                ctx.oracle_fail(verdict[0], verdict[1], case)
        if extra is None:
            continue
        tail = ans[len(judges):]
        for i, item in enumerate(extra):
            impl_tree, impl_set, mol_idx = item[0], item[1], item[2]
            tree_ans, set_ans = tail[2 * i], tail[2 * i + 1]
            ctx.correspond("e2e-tree", impl_tree, dict(edges=tree_ans["edges"], closing=tree_ans["closing"]), case)
            if impl_set is not None:
                ctx.correspond("e2e-setdr", impl_set, model_store(set_ans), case)
            if len(item) > 3:
                ctx.correspond("initialize-cycles", sorted(item[3]), [tree_ans["closing"]], case)
        ctx.traces += 1
        ctx.case(("e2e", json.dumps(case, sort_keys=True)) if nontrivial(desc) else None,
                 sample=dict(flavour=case["flavour"], molecules=desc["molecules"], build=desc["build"][:1],
                             checks=checked),
                 flavour=case["flavour"], build="ok", e2e_checks=min(checked, 20))
        if crossing:
            ctx.tally(direction_steps_across_pbc_judged=min(crossing, 5))


def min_image(a, b, box):
    tot = 0.0
    for x, y, l in zip(a, b, box):
        d = min((x - y) % l, (y - x) % l)
        tot += d * d
    return math.sqrt(tot)


def corpus_cases():
    path = os.path.join(common.VERIF, "corpus", "C07")
    out = []
    if os.path.isdir(path):
        for name in sorted(os.listdir(path)):
            data = json.load(open(os.path.join(path, name)))
            out.append(data.get("input", data))
    return out


def dispatch(ctx, cases):
    pred = [c for c in cases if c.get("stream") != "e2e"]
    e2e = [c for c in cases if c.get("stream") == "e2e"]
    if pred:
        run_predicates(ctx, pred)
    if e2e:
        run_e2e(ctx, e2e)


def run(ctx):
    import warnings
    warnings.filterwarnings("ignore", category=RuntimeWarning)
    ctx.extra["rule"] = RULE
    ctx.extra["trusted"] = [
        "numpy float sqrt / arccos / % (predicate inputs are dyadic, angle boundary cases are skipped, the "
        "oracle widens regions and windows by 1e-9)",
        "networkx dfs_tree / bfs_tree / DiGraph.edges order (modelled as adjacency-order traversals, tied by "
        "the tree stream on every run)",
        "scipy KDTree and the Lennard-Jones overlap test, bendiness: opaque booleans of the acceptance test",
        "numpy.random / random (the theorems quantify over every outcome)"]
    ctx.assumptions += [
        "build-file selection = residue name and resid in [start, stop) as np.arange(start, stop) does",
        "ring theorem: residue graph of a ring whose bonds are listed (i,i+1) then (n-1,0), grown from residue 0; "
        "other bond orders are covered by the end-to-end oracle and the tree stream",
        "growth direction = minimum-image step between parent and child residue (the trial step for steps "
        "shorter than half a box edge); steps across box faces are judged (fix b739cad)",
        "known finding rw-restriction-overwritten (known_findings.txt): of several rw_restriction lines only "
        "the last is applied",
        "builds that do not terminate within the time limit (infeasible restraint mix) are counted, not judged"]
    ctx.extra["explanation"] = ("C07_cycle_closing depends on Tables.searchTreeIfDfs = \"dfs_tree\" (translated from "
                                "MetaMolecule.search_tree on every run)")
    cases = corpus_cases()
    dispatch(ctx, cases)
    run_predicates(ctx, predicate_cases(ctx))
    run_e2e(ctx, e2e_cases(ctx))
    ok = sum(v for k, v in ctx.dist.items() if k == "build=ok")
    if ok == 0:
        ctx.tie_broken("correspondence", "e2e:no-build-finished", "no end-to-end build finished")


def replay(ctx, data):
    import warnings
    warnings.filterwarnings("ignore", category=RuntimeWarning)
    if data.get("kind") == "no-failing-input-found":
        print("replay names obligations that no longer check:")
        for item in data.get("no_longer_checks", []):
            print("  ", item["name"], "-", item["detail"][:300])
        cases = [i["input"] for i in data.get("no_longer_checks", []) if i.get("input")]
    else:
        cases = [data.get("input") or data]
    dispatch(ctx, [c for c in cases if isinstance(c, dict) and c.get("stream")])
    for b in ctx.broken:
        print("REPLAY-DISAGREES", b["name"], b["detail"][:400])
