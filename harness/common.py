"""Shared machinery of all checks: PRNG, Lean build/audit/driver, evidence, known findings, verdict.

One check run (see DESIGN.md 2.1):
  1. regenerate Generated/*.lean from the current /repo sources (translator),
  2. `lake build PolyplyVerif.Properties.Cxx` (kernel re-checks every property theorem),
  3. audit: forbidden tokens + `#print axioms` of every property theorem,
  4. correspondence + oracle by the property module (real code in-process vs Lean driver),
  5. verdict: VIOLATION / KNOWN-FINDING lines, evidence file, exit code.
"""
import collections
import contextlib
import fcntl
import fractions
import json
import os
import random
import re
import subprocess
import sys
import time
import traceback

HERE = os.path.dirname(os.path.abspath(__file__))
VERIF = os.path.dirname(HERE)
REPO = os.environ.get("POLYPLY_REPO", "/repo")
LEAN_SRC = os.path.join(VERIF, "lean")
if os.path.realpath(REPO) == "/repo":
    LEAN_DIR = LEAN_SRC
else:
    # a run against a scratch copy of the repository gets its own copy of the lake project, so that
    # its regenerated tables and rebuilt .olean files cannot race with runs against /repo
    import hashlib as _hashlib
    LEAN_DIR = "/tmp/polyply_verif_lean_" + _hashlib.sha1(os.path.realpath(REPO).encode()).hexdigest()[:10]
GUARD = "POLYPLY_VERIF"
os.environ[GUARD] = "1"
os.environ.setdefault("TQDM_DISABLE", "1")
# the workloads are many tiny numpy/scipy calls: BLAS/OpenMP thread pools only cost (oversubscription)
for _var in ("OMP_NUM_THREADS", "OPENBLAS_NUM_THREADS", "MKL_NUM_THREADS", "NUMEXPR_NUM_THREADS"):
    os.environ.setdefault(_var, "1")
if REPO not in sys.path:
    sys.path.insert(0, REPO)
if HERE not in sys.path:
    sys.path.insert(0, HERE)

ALLOWED_AXIOMS = {"propext", "Classical.choice", "Quot.sound"}
FORBIDDEN = re.compile(r"\bsorry\b|\badmit\b|^\s*axiom\s|native_decide|bv_decide|implemented_by|\bunsafe\s|maxHeartbeats\s+0\b",
                       re.M)
TRUSTED_BASE = [
    "Lean 4.33.0 kernel (lake build; thorough: leanchecker)",
    "axioms allowed: propext, Classical.choice, Quot.sound (audited with #print axioms each run)",
    "translator harness/gen_tables.py + harness/tables/*.py (ast of /repo sources -> Generated/*.lean)",
    "line-protocol drivers lean/PolyplyVerif/Driver/*.lean and this Python harness (generators, canonicalisers)",
    "CPython 3.12, numpy, scipy, networkx, vermouth as installed in /venv",
]


def quiet_logs():
    """silence the repo's loggers (they write to stderr through vermouth's StyleAdapter)"""
    import logging
    logging.disable(logging.CRITICAL)


# ------------------------------------------------------------------------------------------------ Lean

@contextlib.contextmanager
def lean_lock():
    """serialise lake invocations of concurrently running checks"""
    path = os.path.join(LEAN_DIR, ".lake_lock")
    with open(path, "w") as handle:
        fcntl.flock(handle, fcntl.LOCK_EX)
        try:
            yield
        finally:
            fcntl.flock(handle, fcntl.LOCK_UN)


def run_cmd(cmd, cwd=None, timeout=3600, inp=None):
    proc = subprocess.run(cmd, cwd=cwd, input=inp, stdout=subprocess.PIPE, stderr=subprocess.STDOUT,
                          text=True, timeout=timeout)
    return proc.returncode, proc.stdout


def lake_build(targets):
    with lean_lock():
        return run_cmd(["lake", "build"] + list(targets), cwd=LEAN_DIR)


def strip_comments(text):
    """remove Lean block and line comments (for the forbidden-token audit)"""
    out, depth, i = [], 0, 0
    while i < len(text):
        if text.startswith("/-", i):
            depth += 1
            i += 2
        elif depth and text.startswith("-/", i):
            depth -= 1
            i += 2
        elif depth:
            i += 1
        elif text.startswith("--", i):
            j = text.find("\n", i)
            i = len(text) if j < 0 else j
        else:
            out.append(text[i])
            i += 1
    return "".join(out)


def module_file(mod):
    return os.path.join(LEAN_DIR, mod.replace(".", os.sep) + ".lean")


def transitive_local_imports(mod, seen=None):
    seen = seen if seen is not None else []
    if mod in seen:
        return seen
    path = module_file(mod)
    if not os.path.exists(path):
        return seen
    seen.append(mod)
    with open(path) as handle:
        for line in handle:
            match = re.match(r"\s*import\s+(PolyplyVerif\.[\w.]+)", line)
            if match:
                transitive_local_imports(match.group(1), seen)
    return seen


def property_theorems(pid):
    """names of the theorems stated in Properties/Cxx.lean (fully qualified by their namespace)"""
    path = module_file("PolyplyVerif.Properties." + pid)
    names = []
    if not os.path.exists(path):
        return names
    text = strip_comments(open(path).read())
    namespace = []
    for line in text.splitlines():
        m = re.match(r"\s*namespace\s+([\w.]+)", line)
        if m:
            namespace.append(m.group(1))
            continue
        m = re.match(r"\s*end\s+([\w.]+)\s*$", line)
        if m and namespace and namespace[-1] == m.group(1):
            namespace.pop()
            continue
        m = re.match(r"\s*(?:private\s+|protected\s+)?(?:theorem|lemma)\s+([\w.']+)", line)
        if m:
            names.append(".".join(namespace + [m.group(1)]))
    return names


def lean_obligations(pid, thorough=False):
    """Build the property module and audit it.  Returns a list of obligations:
    dict(name, kind, ok, detail)."""
    obligations = []
    mod = "PolyplyVerif.Properties." + pid
    driver_mod = "PolyplyVerif.Driver." + pid
    # the driver (model + generated tables only) is built first and separately: it must stay usable for
    # the failing-input search even when a theorem no longer checks
    code, out = lake_build([driver_mod])
    obligations.append(dict(name="build:" + driver_mod, kind="model-build", ok=code == 0,
                            detail="" if code == 0 else out[-3000:]))
    code, out = lake_build([mod])
    obligations.append(dict(name="build:" + mod, kind="kernel-check", ok=code == 0,
                            detail="" if code == 0 else out[-6000:]))
    build_ok = code == 0
    # forbidden tokens in every local module the property file depends on
    for dep in transitive_local_imports(mod):
        text = strip_comments(open(module_file(dep)).read())
        hit = FORBIDDEN.search(text)
        obligations.append(dict(name="tokens:" + dep, kind="audit", ok=hit is None,
                                detail="" if hit is None else "forbidden token %r" % hit.group(0)))
    theorems = property_theorems(pid)
    if not theorems:
        obligations.append(dict(name="theorems:" + pid, kind="audit", ok=False, detail="no theorem found"))
    if build_ok and theorems:
        audit_dir = os.path.join(LEAN_DIR, "Audit")
        os.makedirs(audit_dir, exist_ok=True)
        audit = os.path.join(audit_dir, pid + ".lean")
        with open(audit, "w") as handle:
            handle.write("import %s\n" % mod)
            for name in theorems:
                handle.write("#print axioms %s\n" % name)
        code, out = run_cmd(["lake", "env", "lean", audit], cwd=LEAN_DIR)
        axioms = parse_print_axioms(out)
        for name in theorems:
            used = axioms.get(name)
            if used is None:
                obligations.append(dict(name="thm:" + name, kind="theorem", ok=False,
                                        detail="no #print axioms output: " + out[-500:]))
            else:
                bad = sorted(set(used) - ALLOWED_AXIOMS)
                obligations.append(dict(name="thm:" + name, kind="theorem", ok=not bad,
                                        detail=("axioms: " + ", ".join(used)) if used else "axioms: none",
                                        axioms=used))
    elif theorems:
        for name in theorems:
            obligations.append(dict(name="thm:" + name, kind="theorem", ok=False,
                                    detail="module did not build"))
    if thorough and build_ok:
        code, out = run_cmd(["lake", "env", "leanchecker", mod], cwd=LEAN_DIR, timeout=3600)
        obligations.append(dict(name="leanchecker:" + mod, kind="independent-recheck", ok=code == 0,
                                detail=out[-1000:] if code else ""))
    return obligations


def parse_print_axioms(out):
    res = {}
    text = out.replace("\n  ", " ")
    for m in re.finditer(r"'([^']+)' depends on axioms: \[([^\]]*)\]", text):
        res[m.group(1)] = [a.strip() for a in m.group(2).replace("\n", " ").split(",") if a.strip()]
    for m in re.finditer(r"'([^']+)' does not depend on any axioms", text):
        res[m.group(1)] = []
    return res


class Driver:
    """Batch access to the Lean model of one property: requests (JSON-able dicts) in, answers out."""

    def __init__(self, pid):
        self.pid = pid
        self.calls = 0

    def ask(self, requests, timeout=1800):
        requests = list(requests)
        if not requests:
            return []
        inp = "\n".join(json.dumps(r, separators=(",", ":")) for r in requests) + "\n"
        code, out = run_cmd(["lake", "env", "lean", "--run", os.path.join("Drivers", self.pid + ".lean")],
                            cwd=LEAN_DIR, inp=inp, timeout=timeout)
        lines = [l for l in out.splitlines() if l.strip()]
        answers = []
        for line in lines:
            try:
                answers.append(json.loads(line))
            except ValueError:
                raise DriverError("driver output is not JSON: %r (exit %s)" % (line[:400], code))
        if len(answers) != len(requests):
            raise DriverError("driver answered %d of %d requests (exit %s): %s"
                              % (len(answers), len(requests), code, out[-800:]))
        self.calls += len(requests)
        return answers


class DriverError(Exception):
    pass


# ------------------------------------------------------------------------------------------------ numbers

def frac(x):
    """exact rational of a python/numpy float or int"""
    if isinstance(x, fractions.Fraction):
        return x
    if isinstance(x, int):
        return fractions.Fraction(x)
    return fractions.Fraction(float(x))


def rat_str(x):
    f = frac(x)
    return str(f.numerator) if f.denominator == 1 else "%d/%d" % (f.numerator, f.denominator)


def rat_parse(s):
    return fractions.Fraction(s)


def dyadic(rng, lo, hi, bits=6):
    """random multiple of 2^-bits in [lo, hi] (exact in double and under +,-,* by small integers)"""
    scale = 1 << bits
    return fractions.Fraction(rng.randint(int(lo * scale), int(hi * scale)), scale)



# ------------------------------------------------------------------------------------------------ time limits

class CaseTimeout(BaseException):
    """raised by `time_limit` inside the code under test; derives from BaseException so that neither the code
    under test nor a harness wrapper swallows it with `except Exception`"""


@contextlib.contextmanager
def time_limit(seconds):
    """Bound one case (one call into the real code).  The timer re-fires every second after the limit, so a
    handler that is swallowed once (an `except BaseException`/`finally` that keeps looping) is raised again."""
    import signal

    def _raise(*_args):
        raise CaseTimeout()
    old = signal.signal(signal.SIGALRM, _raise)
    signal.setitimer(signal.ITIMER_REAL, seconds, 1.0)
    try:
        yield
    finally:
        signal.setitimer(signal.ITIMER_REAL, 0)
        signal.signal(signal.SIGALRM, old)


# ------------------------------------------------------------------------------------------------ temp dirs

def recycle_temp_dirs():
    """Make `tempfile.mkdtemp` (and with it `TemporaryDirectory`) hand out a small set of RECYCLED directory names
    instead of fresh random ones: the files the harness writes for consecutive cases then have the SAME paths with
    different contents, as in a user's step-wise workflow that rewrites `start.gro` or `system.top`.  Code under
    test that remembers something per path (a cache keyed by file name, an include-once guard, a registry of
    written files) is exposed by the later cases of every stream; on correct code a path carries no memory and
    nothing changes.  A name is only handed out while no directory of that name exists, so nested or simultaneous
    temporary directories never collide (fallback: the real mkdtemp)."""
    import atexit
    import shutil
    import tempfile
    if getattr(tempfile, "_polyply_verif_recycling", False) or os.environ.get("VERIF_NO_RECYCLE"):
        return
    real = tempfile.mkdtemp
    base = os.path.join(tempfile.gettempdir(), "polyply_verif_work_%d" % os.getpid())

    def mkdtemp(suffix=None, prefix=None, dir=None):   # pylint: disable=redefined-builtin
        root = base if dir is None else dir
        try:
            os.makedirs(root, exist_ok=True)
            for k in range(4):
                path = os.path.join(root, "%sr%d%s" % (prefix or "tmp", k, suffix or ""))
                try:
                    os.mkdir(path, 0o700)
                    return path
                except FileExistsError:
                    continue
        except OSError:
            pass
        return real(suffix, prefix, dir)
    tempfile.mkdtemp = mkdtemp
    tempfile._polyply_verif_recycling = True
    atexit.register(lambda: shutil.rmtree(base, ignore_errors=True))

# ------------------------------------------------------------------------------------------------ findings

def load_known_findings():
    path = os.path.join(VERIF, "known_findings.txt")
    known = []
    if os.path.exists(path):
        for line in open(path):
            line = line.strip()
            m = re.match(r"known:\s+property=(C\d+)\s+shape=(\S+)\s*(.*)", line)
            if m:
                known.append(dict(property=m.group(1), shape=m.group(2), text=m.group(3)))
    return known


# ------------------------------------------------------------------------------------------------ context

class Ctx:
    """Collects what one run of one check covered and found."""

    def __init__(self, pid, tier, seed):
        self.pid, self.tier, self.seed = pid, tier, seed
        self.rng = random.Random((seed, pid).__repr__())
        self.t0 = time.time()          # reset when the harness module starts: stream deadlines are relative to it
        self.t_start = self.t0       # start of the whole run (wall_s)
        self.driver = Driver(pid)
        self.obligations = []
        self.evaluations = 0
        self.nontrivial = set()
        self.samples = []
        self.dist = collections.Counter()
        self.failures = []          # oracle failures on the implementation: dict(shape, what, replay)
        self.broken = []            # broken ties: dict(kind, name, detail)
        self.corr_checked = 0
        self.corr_disagreements = 0
        self.traces = 0
        self.assumptions = []
        self.extra = {}
        self.thorough = tier == "thorough"
        self.scale = 1              # > 1: the source differs from the fingerprinted tree, search wider
        self.changed_files = []

    # -- budgets
    def budget(self, quick, thorough):
        """size of a stream / a time limit for this tier.  When the source of the package differs from the tree
        the checks were last validated against (tools/fingerprint.py) the quick tier searches wider: its
        budgets are multiplied by `scale`, never beyond the thorough budget."""
        if self.thorough:
            return thorough
        if self.scale > 1 and thorough > quick:
            wide = quick * self.scale
            return min(thorough, type(quick)(wide))
        return quick

    # -- coverage accounting
    def case(self, key=None, sample=None, **dist):
        """count one evaluated case; `key` identifies a distinct non-trivial case (None = trivial)"""
        self.evaluations += 1
        if key is not None:
            self.nontrivial.add(key if isinstance(key, (str, int, tuple)) else json.dumps(key, sort_keys=True, default=str))
        if sample is not None and len(self.samples) < 4:
            self.samples.append(sample)
        for k, v in dist.items():
            self.dist["%s=%s" % (k, v)] += 1

    def tally(self, **dist):
        for k, v in dist.items():
            self.dist["%s=%s" % (k, v)] += 1

    # -- outcomes
    def oracle_fail(self, shape, what, replay):
        """the property's predicate fails on the implementation for a concrete input"""
        self.failures.append(dict(shape=shape, what=what, replay=replay))

    def tie_broken(self, kind, name, detail, replay=None):
        """a proof obligation or the correspondence no longer checks"""
        self.broken.append(dict(kind=kind, name=name, detail=detail, replay=replay))

    def correspond(self, name, impl, model, replay):
        """compare canonical outputs of the implementation and of the model"""
        self.corr_checked += 1
        if impl != model:
            self.corr_disagreements += 1
            if not any(b["name"] == "correspondence:" + name for b in self.broken):
                self.tie_broken("correspondence", "correspondence:" + name,
                                "impl=%s model=%s" % (json.dumps(impl, default=str)[:1500], json.dumps(model, default=str)[:1500]),
                                replay)
            return False
        return True


def write_replay(pid, tag, data):
    rdir = os.path.join(VERIF, "replays", pid)
    os.makedirs(rdir, exist_ok=True)
    path = os.path.join(rdir, "%s.json" % tag)
    with open(path, "w") as handle:
        json.dump(data, handle, indent=1, default=str)
    return path


def finish(ctx, level="proof", extra_assumptions=()):
    """Print verdict lines, write the evidence file, return the exit code."""
    known = [k for k in load_known_findings() if k["property"] == ctx.pid]
    printed_known, violations = set(), []
    for fail in ctx.failures:
        match = next((k for k in known if k["shape"] == fail["shape"]), None)
        if match is not None:
            if match["shape"] not in printed_known:
                printed_known.add(match["shape"])
                print("KNOWN-FINDING: property=%s shape=%s %s" % (ctx.pid, match["shape"], match["text"]))
            continue
        violations.append(fail)
    exit_code = 0
    reported = set()
    for idx, fail in enumerate(violations):
        if fail["shape"] in reported:
            continue
        reported.add(fail["shape"])
        path = write_replay(ctx.pid, "violation_%s_seed%d_%d" % (re.sub(r"\W+", "_", fail["shape"]), ctx.seed, idx),
                            dict(property=ctx.pid, kind="failing-input", shape=fail["shape"], what=fail["what"],
                                 seed=ctx.seed, tier=ctx.tier, input=fail["replay"]))
        print("VIOLATION property=%s replay=%s" % (ctx.pid, path))
        print("  " + fail["what"][:600])
        exit_code = 1
    failed_obl = [o for o in ctx.obligations if not o["ok"]]
    broken = list(ctx.broken) + [dict(kind=o["kind"], name=o["name"], detail=o["detail"], replay=None) for o in failed_obl]
    if broken and not violations:
        # a proof obligation or the correspondence broke and the search found no failing input
        path = write_replay(ctx.pid, "broken_seed%d" % ctx.seed,
                            dict(property=ctx.pid, kind="no-failing-input-found", seed=ctx.seed, tier=ctx.tier,
                                 no_longer_checks=[dict(kind=b["kind"], name=b["name"], detail=b["detail"],
                                                        input=b.get("replay")) for b in broken],
                                 searched=dict(evaluations=ctx.evaluations, distinct_nontrivial=len(ctx.nontrivial))))
        print("VIOLATION property=%s replay=%s no-failing-input-found" % (ctx.pid, path))
        for b in broken[:5]:
            print("  no longer checks: %s (%s)" % (b["name"], b["kind"]))
        exit_code = 1
    elif broken:
        for b in broken[:5]:
            print("  also no longer checks: %s (%s)" % (b["name"], b["kind"]))
    obligations = len(ctx.obligations)
    discharged = sum(1 for o in ctx.obligations if o["ok"])
    evidence = dict(
        property_id=ctx.pid, tier=ctx.tier, seed=ctx.seed, level=level,
        coverage=dict(
            obligations=obligations, discharged=discharged,
            checker_cmd="cd lean && lake build PolyplyVerif.Properties.%s && lake env lean Audit/%s.lean%s"
                        % (ctx.pid, ctx.pid, " && lake env leanchecker PolyplyVerif.Properties.%s" % ctx.pid if ctx.thorough else ""),
            trusted_base=TRUSTED_BASE + list(ctx.extra.get("trusted", [])),
            obligation_list=[dict(name=o["name"], kind=o["kind"], ok=o["ok"], detail=o["detail"][:300]) for o in ctx.obligations],
            evaluations=ctx.evaluations, distinct_nontrivial=len(ctx.nontrivial),
            rule=ctx.extra.get("rule", ""),
            samples=ctx.samples or ["(no correspondence samples)"],
            input_distribution=dict(sorted(ctx.dist.items())),
            traces_validated_against_impl=ctx.traces,
            correspondence_checked=ctx.corr_checked,
            disagreements_checked=ctx.corr_disagreements,
            known_findings_printed=sorted(printed_known),
            source_changed_since_fingerprint=list(ctx.changed_files), budget_scale=ctx.scale,
            explanation=ctx.extra.get("explanation", ""),
        ),
        assumptions=list(ctx.assumptions) + list(extra_assumptions),
        wall_s=round(time.time() - ctx.t_start, 2),
        violations=len(reported) + (1 if broken and not violations else 0),
    )
    # runs against a scratch copy of the repository (POLYPLY_REPO) must not overwrite real evidence
    evdir = "evidence" if os.path.realpath(REPO) == "/repo" else "evidence_scratch"
    os.makedirs(os.path.join(VERIF, evdir), exist_ok=True)
    with open(os.path.join(VERIF, evdir, ctx.pid + ".json"), "w") as handle:
        json.dump(evidence, handle, indent=1, default=str)
    print("%s %s seed=%d: obligations %d/%d, evaluations %d (distinct non-trivial %d), correspondence %d (disagree %d), %.1fs -> exit %d"
          % (ctx.pid, ctx.tier, ctx.seed, discharged, obligations, ctx.evaluations, len(ctx.nontrivial),
             ctx.corr_checked, ctx.corr_disagreements, time.time() - ctx.t_start, exit_code))
    return exit_code


def sync_scratch_lean():
    if LEAN_DIR != LEAN_SRC:
        os.makedirs(LEAN_DIR, exist_ok=True)
        with lean_lock():
            proc = subprocess.run(["rsync", "-a", "--exclude", "Generated", "--exclude", ".lake_lock",
                                   LEAN_SRC + "/", LEAN_DIR + "/"], stdout=subprocess.PIPE, stderr=subprocess.STDOUT)
            # 24 = "some files vanished while copying" (another run rebuilt them): harmless, lake rebuilds
            if proc.returncode not in (0, 24):
                raise RuntimeError("rsync of the lake project failed: %s" % proc.stdout[-500:])


def run_check(pid, tier, seed, module, replay=None):
    """The standard flow.  `module` provides run(ctx) and optionally replay(ctx, data)."""
    import gen_tables
    sync_scratch_lean()
    gen_tables.GEN_DIR = os.path.join(LEAN_DIR, "PolyplyVerif", "Generated")
    if LEAN_DIR != LEAN_SRC:
        gen_tables.FALLBACK_DIR = os.path.join(LEAN_SRC, "PolyplyVerif", "Generated")
    ctx = Ctx(pid, tier, seed)
    quiet_logs()
    recycle_temp_dirs()
    try:
        sys.path.insert(0, os.path.join(VERIF, "tools"))
        import fingerprint
        ctx.changed_files = fingerprint.changed_files(REPO)
    except Exception:  # pylint: disable=broad-except
        ctx.changed_files = []
    if ctx.changed_files and replay is None:
        ctx.scale = int(os.environ.get("VERIF_CHANGED_SCALE", "4"))
        print("source differs from the fingerprinted tree in %s: quick budgets x%d" % (", ".join(ctx.changed_files), ctx.scale))
    if replay is not None:
        data = json.load(open(replay))
        code, _ = lake_build(["PolyplyVerif.Driver." + pid])
        module.replay(ctx, data)
        for fail in ctx.failures:
            print("REPLAY-FAILS property=%s shape=%s %s" % (pid, fail["shape"], fail["what"][:600]))
        if not ctx.failures:
            print("REPLAY-PASSES property=%s" % pid)
        return 1 if ctx.failures else 0
    # 1. translator (a provider whose anchor is missing only concerns the properties that import its file)
    changed, tabs = gen_tables.generate()
    gen_tables.validate_live(tabs)
    used = set()
    for mod in ("PolyplyVerif.Properties." + pid, "PolyplyVerif.Driver." + pid):
        for dep in transitive_local_imports(mod):
            if dep.startswith("PolyplyVerif.Generated."):
                used.add(dep.split(".")[-1] + ".lean")
    problems = ["%s: %s" % (f, "; ".join(v)) for f, v in gen_tables.LIVE_PROBLEMS.items() if f in used]
    errors = ["%s: %s" % (f, e) for f, e in gen_tables.ERRORS.items() if f in used]
    other = ["%s: %s" % (f, e) for f, e in gen_tables.ERRORS.items() if f not in used]
    detail = "; ".join(errors + problems) if errors or problems else \
        "regenerated (%s)%s" % (", ".join(changed) or "unchanged",
                                "; not used by this property and not regenerated: " + "; ".join(other) if other else "")
    ctx.obligations.append(dict(name="translator", kind="translator", ok=not errors and not problems, detail=detail))
    # 2./3. kernel + audit
    ctx.obligations += lean_obligations(pid, thorough=ctx.thorough)
    # 4. correspondence and oracle
    model_ok = ctx.obligations[1]["ok"] if len(ctx.obligations) > 1 else False
    ctx.model_ok = model_ok
    ctx.t0 = time.time()    # the time the translator, lake and the audit took (cold caches on a fresh machine) must not
                            # eat the time budgets of the streams
    try:
        module.run(ctx)
    except DriverError as err:
        ctx.tie_broken("correspondence", "driver:" + pid, str(err))
    except TimeoutError:
        raise
    except Exception as err:  # pylint: disable=broad-except
        # An exception that escapes the harness while it drives the real code: if it was raised inside the
        # code under test (a frame under REPO/polyply) the code no longer behaves as the model says on a
        # harness-built input -> the correspondence is broken (reported, with the traceback, by the verdict);
        # an exception raised by the harness itself stays a harness error (exit 2).
        frames = traceback.extract_tb(err.__traceback__)
        in_repo = any(os.path.realpath(f.filename).startswith(os.path.realpath(os.path.join(REPO, "polyply")))
                      for f in frames)
        if not in_repo:
            raise
        ctx.tie_broken("correspondence", "real-code-raised-while-driven-by-harness:" + type(err).__name__,
                       "".join(traceback.format_exception(type(err), err, err.__traceback__))[-3000:])
    # 5. verdict
    return finish(ctx)


def main(pid, module):
    import argparse
    parser = argparse.ArgumentParser()
    parser.add_argument("--tier", default=os.environ.get("VERIF_TIER", "quick"), choices=["quick", "thorough"])
    parser.add_argument("--replay", default=None)
    args = parser.parse_args(sys.argv[2:] if len(sys.argv) > 1 and sys.argv[1] == pid else None)
    seed = int(os.environ.get("VERIF_SEED", "0"))
    # overall watchdog: a run that hangs (e.g. the code under test loops forever) is killed from outside the
    # process — harness modules use signal.alarm for per-case limits and code under test may swallow
    # exceptions, so an in-process alarm is not reliable.  A killed run is a harness outcome, never a verdict.
    limit = int(os.environ.get("VERIF_TIME_LIMIT", "1500" if args.tier == "quick" else "10800"))
    watchdog = subprocess.Popen(["sh", "-c", "sleep %d; echo 'HARNESS-TIMEOUT property=%s after %d s (killed; not a verdict)'; "
                                 "kill -9 %d" % (limit, pid, limit, os.getpid())], start_new_session=True)
    import atexit
    import signal

    def _stop_watchdog():
        try:
            os.killpg(watchdog.pid, signal.SIGKILL)    # the shell AND its sleep (which would keep pipes open)
        except OSError:
            pass
    atexit.register(_stop_watchdog)
    try:
        return run_check(pid, args.tier, seed, module, replay=args.replay)
    except Exception:  # pylint: disable=broad-except
        traceback.print_exc()
        print("HARNESS-ERROR property=%s (exit 2, not a verdict)" % pid)
        return 2
