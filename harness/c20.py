"""C20 — outputs appear only after success and never clobber existing files.

  "If gen_params, gen_coords or gen_seq fails at any stage before writing, no output file is created,
   truncated or modified.  When gen_params or gen_coords succeed the complete file is in place and a file
   previously at that path is kept under a GROMACS-style backup name."

Fault-injection correspondence on the REAL programs.  For each of `gen_params`, `gen_coords`, `gen_seq`
(several option variants) the Lean model (`Model/Output.lean`) supplies the program's stage list; every
stage is tied to a real function (table `TARGETS`) that is interposed by attribute assignment inside this
process.  For every crash index k and every pre-existing directory content the real program is run in a
fresh directory with stage k raising; the directory listing + file contents, the temporary files of the
deferred writer and the length of its queue are compared with the model (`crashRun`).  The oracle is the
Lean specification (`specUnchangedB`, `specSuccessB` — proved equivalent to the property's statement in
`Properties/C20.lean`) evaluated on the real before/after listings.

Stream `unnamed-stage`: the translator (`harness/tables/output.py` -> Generated/OutputTables.lean) reads the
call sequence of the three function bodies from the CURRENT source; the Lean side (`Output.unnamedCalls`, driver
op `unnamed`) returns the non-benign calls that the model's stage list does not name (constructors such as
`BuildSystem(...)`, `np.loadtxt` of -grid, helpers one level down, anything a later edit inserts).  Each one that
resolves through the program's module namespace and is reached by a variant becomes a crash point of its own
(label `src:<callee>`), judged exactly like the named stages.  `Properties/C20.lean` proves by `decide` on the same
tables that the stage lists are ordered like the source and that nothing but benign calls follows the flush.

The `DeferredFileWriter` singleton is reset (`close()`, which drops queued temporary files) before every
run and its `_tmpdir` is pointed to a per-run directory so that temporary files can be observed.
Same-process reuse after a failed run is outside the property's quantifier; the stream `stale-queue`
compares it with the model anyway (correspondence only, never an oracle failure) and tallies what happens.
"""
import json
import os
import random
import re
import shutil
import tempfile
from pathlib import Path

import common

RULE = ("output names: default + no suffix / other suffix / several dots / upper-case suffix / blanks, with look-alike "
        "neighbour files, absolute / relative / sub-directory paths; temp dir on another filesystem; "
        "3 programs x option variants x every stage index of the model's stage list (crash point) + the "
        "successful run, x pre-existing directory contents (empty / other files / existing output / existing "
        "output with backups #name.1#, gaps, look-alike names; random contents in the thorough tier); "
        "+ a crash point at every non-benign call of the CURRENT source that the stage list does not name (translator); "
        "distinct = (program, variant, crash index, directory state); trivial = none")

OLD = "OLD CONTENT\n"


class Injected(Exception):
    """the fault raised at the crash point"""


# ------------------------------------------------------------------------------------------------ fixtures

FF_TEXT = """[ moleculetype ]
AA 1
[ atoms ]
1 P 1 AA A 1 0.0 45
2 P 1 AA B 1 0.0 45
[ bonds ]
A B 1 0.1 100
[ moleculetype ]
BB 3
[ atoms ]
1 P 1 BB A 1 0.0 45
2 P 1 BB B 1 0.0 45
[ bonds ]
A B 1 0.1 100
[ link ]
resname "AA|BB"
[ bonds ]
B +A 1 0.2 200
"""

TOP_HEAD = ("[ defaults ]\n1 1 no 1.0 1.0\n[ atomtypes ]\nP 72.0 0.0 A 0.1 0.1\n"
            "[ nonbond_params ]\nP P 1 0.1 0.1\n")


def top_text():
    """one polymer of 3 two-atom residues, two copies"""
    out = [TOP_HEAD, "[ moleculetype ]\nA 1\n[ atoms ]\n"]
    k = 1
    for i in range(1, 4):
        out.append("%d P %d RA X %d 0.0 72.0\n" % (k, i, k))
        out.append("%d P %d RA Y %d 0.0 72.0\n" % (k + 1, i, k + 1))
        k += 2
    out.append("[ bonds ]\n")
    for i in range(3):
        out.append("%d %d 1 0.3 1250\n" % (2 * i + 1, 2 * i + 2))
        if i < 2:
            out.append("%d %d 1 0.3 1250\n" % (2 * i + 2, 2 * i + 3))
    out.append("[ system ]\ntest\n[ molecules ]\nA 2\n")
    return "".join(out)


BLD_TEXT = "[ molecule ]\nA 0 1\n[ sphere ]\nRA 1 3 in 2.5 2.5 2.5 2.4\n"


def write_inputs(indir):
    files = {"ex.ff": FF_TEXT, "seq.txt": "AA AA BB\n", "s.top": top_text(), "o.bld": BLD_TEXT,
             "grid.dat": "".join("%.1f %.1f %.1f\n" % (x, y, z) for x in (1, 3, 5) for y in (1, 3, 5) for z in (1, 3, 5))}
    for name, text in files.items():
        with open(os.path.join(indir, name), "w") as handle:
            handle.write(text)


def variants():
    """(program, variant name, flags for the model, callable(indir, outpath) running the real program)"""
    import numpy as np
    import polyply

    def gp_seq(indir, outpath):
        polyply.gen_params(name="mol", outpath=outpath, inpath=[Path(indir) / "ex.ff"], lib=None,
                           seq=["AA:2", "BB:1"])

    def gp_file(indir, outpath):
        polyply.gen_params(name="mol", outpath=outpath, inpath=[Path(indir) / "ex.ff"], lib=None,
                           seq=None, seq_file=Path(indir) / "seq.txt")

    def gc(**kwargs):
        def call(indir, outpath):
            extra = dict(kwargs)
            if extra.pop("build", False):
                extra["build"] = [Path(indir) / "o.bld"]
            if extra.pop("grid", False):
                extra["grid"] = Path(indir) / "grid.dat"          # -grid: np.loadtxt is a stage of its own
            polyply.gen_coords(toppath=Path(indir) / "s.top", outpath=outpath, name="t",
                               box=np.array([6., 6., 6.]), **extra)
        return call

    def gs(**kwargs):
        def call(indir, outpath):
            polyply.gen_seq(name="x", outpath=outpath, seq=["A", "B"],
                            macro_strings=["A:3:1:PEO-1.0", "B:2:1:PS-1.0"], connects=["0:1:2-0"], **kwargs)
        return call

    return [
        ("gen_params", "seq", {}, "out.itp", gp_seq),
        ("gen_params", "seq_file", {"seq_file": True}, "out.itp", gp_file),
        ("gen_coords", "plain", {}, "out.gro", gc()),
        ("gen_coords", "split+build+check", {"split": True, "build": True, "skip_filter": True}, "out.gro",
         gc(split=["RA:RX-X:RY-Y"], build=True, skip_filter=True, grid=True)),
        ("gen_seq", "plain", {}, "seq.json", gs()),
        ("gen_seq", "mods", {"mods": True}, "seq.json", gs(modifications=["0:END"])),
    ]


# ------------------------------------------------------------------------------------------------ interposition

def targets():
    """stage label -> (object, attribute, how) or a list of such alternatives (all installed).
    how: 'func' (module function or instance method), 'cls' (classmethod), 'open' / 'openm' (function /
    method returning a file handle: the handle is wrapped by a counting proxy)."""
    import vermouth
    import vermouth.gmx.itp
    import vermouth.gmx.gro
    from vermouth.file_writer import DeferredFileWriter
    import networkx.readwrite.json_graph as json_graph
    import polyply
    import polyply.src.gen_itp as gen_itp
    import polyply.src.gen_coords as gen_coords
    import polyply.src.gen_seq as gen_seq
    import polyply.src.build_file_parser as bfp
    from polyply.src.topology import Topology
    table = {
        "gen_params": {
            "load_ff_library": (gen_itp, "load_ff_library", "func"),
            "split_seq_string": (gen_itp, "split_seq_string", "func"),
            "MetaMolecule.from_monomer_seq_linear": (gen_itp.MetaMolecule, "from_monomer_seq_linear", "cls"),
            "MetaMolecule.from_sequence_file": (gen_itp.MetaMolecule, "from_sequence_file", "cls"),
            "complement_dsDNA": (gen_itp, "complement_dsDNA", "func"),
            "MapToMolecule.run_molecule": (gen_itp.MapToMolecule, "run_molecule", "func"),
            "ApplyLinks.run_molecule": (gen_itp.ApplyLinks, "run_molecule", "func"),
            "ApplyModifications.run_molecule": (gen_itp.ApplyModifications, "run_molecule", "func"),
            "find_missing_edges": (gen_itp, "find_missing_edges", "func"),
            "deferred_open": [(gen_itp, "deferred_open", "open"), (DeferredFileWriter, "open", "openm")],
            "write_molecule_itp": (vermouth.gmx.itp, "write_molecule_itp", "func"),
            "DeferredFileWriter.write": (DeferredFileWriter, "write", "func"),
        },
        "gen_coords": {
            "Topology.from_gmx_topfile": (Topology, "from_gmx_topfile", "cls"),
            "Topology.preprocess": (Topology, "preprocess", "func"),
            "_check_molecules": (gen_coords, "_check_molecules", "func"),
            "MetaMolecule.split_residue": (polyply.MetaMolecule, "split_residue", "func"),
            "Topology.add_positions_from_file": (Topology, "add_positions_from_file", "func"),
            "load_build_files": (gen_coords, "load_build_files", "func"),
            "BuildDirector.parse": (bfp.BuildDirector, "parse", "func"),
            "find_starting_node_from_spec": (gen_coords, "find_starting_node_from_spec", "func"),
            "check_residue_equivalence": (gen_coords, "check_residue_equivalence", "func"),
            "GenerateTemplates.run_system": (gen_coords.GenerateTemplates, "run_system", "func"),
            "AnnotateLigands.run_system": (gen_coords.AnnotateLigands, "run_system", "func"),
            "_initialize_cylces": (gen_coords, "_initialize_cylces", "func"),
            "BuildSystem.run_system": (gen_coords.BuildSystem, "run_system", "func"),
            "AnnotateLigands.split_ligands": (gen_coords.AnnotateLigands, "split_ligands", "func"),
            "Backmap.run_system": (gen_coords.Backmap, "run_system", "func"),
            "Topology.convert_to_vermouth_system": (Topology, "convert_to_vermouth_system", "func"),
            "write_gro": (vermouth.gmx.gro, "write_gro", "func"),
            "deferred_open": [(vermouth.gmx.gro, "deferred_open", "open"), (DeferredFileWriter, "open", "openm")],
            "DeferredFileWriter.write": (DeferredFileWriter, "write", "func"),
        },
        "gen_seq": {
            "load_ff_library": (gen_seq, "load_ff_library", "func"),
            "MacroFile": (gen_seq.MacroFile, "__init__", "func"),
            "MacroString": (gen_seq.MacroString, "__init__", "func"),
            "generate_seq_graph": (gen_seq, "generate_seq_graph", "func"),
            "_apply_termini_modifications": (gen_seq, "_apply_termini_modifications", "func"),
            "_find_terminal_nodes": (gen_seq, "_find_terminal_nodes", "func"),
            "_tag_nodes": (gen_seq, "_tag_nodes", "func"),
            "node_link_data": (json_graph, "node_link_data", "func"),
            "json.dump": (json, "dump", "func"),
        },
    }
    return table


class CallableProxy:
    """stands in for a class (or function) in a module namespace: calling it is the stage, every other use
    (attribute access such as classmethods) goes to the original"""

    def __init__(self, orig, session, label):
        self.__dict__["_orig"] = orig
        self.__dict__["_session"] = session
        self.__dict__["_label"] = label

    def __call__(self, *args, **kwargs):
        self._session.hit(self._label)
        return self._orig(*args, **kwargs)

    def __getattr__(self, name):
        return getattr(self._orig, name)


def program_module(prog):
    import polyply.src.gen_itp as gen_itp
    import polyply.src.gen_coords as gen_coords
    import polyply.src.gen_seq as gen_seq
    return {"gen_params": gen_itp, "gen_coords": gen_coords, "gen_seq": gen_seq}[prog]


def resolve_source_call(prog, name):
    """callee of the source call table (tables/output.py) -> (object, attribute) through the namespace of the
    program's module, or None (unknown receiver, literal, no longer there)"""
    parts = name.split(".")
    if parts[0] in ("?", "<const>"):
        return None
    obj = program_module(prog)
    for part in parts[:-1]:
        obj = getattr(obj, part, None)
        if obj is None:
            return None
    target = getattr(obj, parts[-1], None)
    if not callable(target):
        return None
    import inspect
    if inspect.isclass(target) and obj is not program_module(prog):
        return None          # a class of another package is not replaced (isinstance tests elsewhere use the name)
    if inspect.isclass(obj):
        # a method: only plain functions of polyply's / vermouth's own classes are wrapped (by a function, so
        # that binding still works); methods of foreign classes (pathlib.Path, dict, ...) are used by everybody
        if not str(getattr(obj, "__module__", "")).startswith(("polyply", "vermouth")):
            return None
        if not inspect.isfunction(inspect.getattr_static(obj, parts[-1], None)):
            return None
        return obj, parts[-1], "func"
    if not inspect.ismodule(obj):
        return None          # an attribute of an instance living in the module namespace: left alone
    return obj, parts[-1], "call"


def unnamed_targets(ctx, prog, flags):
    """the non-benign calls of the CURRENT source of `prog` that the model's stage list does not name
    (Lean: `Output.unnamedCalls` on Generated/OutputTables), as extra interposition targets
    {label: (object, attribute, 'call')} and {label: the named stage that follows it in the source}"""
    answer = ctx.driver.ask([dict(op="unnamed", prog=prog, flags=flags)])[0]
    extra, follows = {}, {}
    for name, depth, nxt in answer["unnamed"]:
        label = "src:" + name
        if label in extra:
            continue
        target = resolve_source_call(prog, name)
        if target is None:
            ctx.tally(unnamed_stage_unresolvable="%s:%s" % (prog, name))
            continue
        extra[label] = target
        follows[label] = nxt
    if not answer.get("order") or not answer.get("quiet"):
        ctx.tally(source_order="%s: order=%s quiet-after-flush=%s" % (prog, answer.get("order"), answer.get("quiet")))
    return extra, follows


class HandleProxy:
    """wraps the handle a program writes its output to: counts `write` calls, records the text, raises the
    injected fault before write number `crash_at`"""

    def __init__(self, real, session):
        self._real = real
        self._session = session

    def write(self, text):
        ses = self._session
        if ses.crash_write is not None and ses.nwrites == ses.crash_write:
            ses.crashed = True
            raise Injected("write %d" % ses.nwrites)
        ses.nwrites += 1
        ses.writes.append(text)
        return self._real.write(text)

    def __enter__(self):
        self._real.__enter__()
        return self

    def __exit__(self, *exc):
        return self._real.__exit__(*exc)

    def __getattr__(self, name):
        return getattr(self._real, name)


class Session:
    """one run of one program with every stage function interposed"""

    def __init__(self, prog, crash_label=None, crash_write=None):
        self.prog = prog
        self.crash_label = crash_label
        self.crash_write = crash_write
        self.trace = []
        self.nwrites = 0
        self.writes = []
        self.crashed = False
        self.saved = []
        self.unresolved = []

    def hit(self, label):
        """first entry of a stage function: recorded; the crash point raises"""
        if label not in self.trace:
            self.trace.append(label)
            if label == self.crash_label:
                self.crashed = True
                raise Injected(label)

    def _set(self, obj, attr, new):
        had = attr in vars(obj)
        self.saved.append((obj, attr, had, vars(obj).get(attr)))
        setattr(obj, attr, new)

    def install_builtin_open(self, outpath, label):
        """every builtin open(<the output path>, 'w'|'a'|'+') of the run is seen: stage `label` is hit and the
        handle is wrapped (so a direct write to the output can be interrupted half way like a deferred one)"""
        import builtins
        orig = builtins.open
        session = self
        target = os.path.realpath(str(outpath))

        def opener(file, mode="r", *args, **kwargs):
            try:
                same = isinstance(file, (str, os.PathLike)) and os.path.realpath(os.fspath(file)) == target
            except (TypeError, ValueError):
                same = False
            if not same or not any(c in mode for c in "wa+x"):
                return orig(file, mode, *args, **kwargs)
            session.hit(label)
            return HandleProxy(orig(file, mode, *args, **kwargs), session)
        self._set(builtins, "open", opener)

    def install(self, table):
        import builtins
        for label, alternatives in table.items():
            if isinstance(alternatives, tuple):
                alternatives = [alternatives]
            found = False
            for obj, attr, how in alternatives:
                if how == "open" and attr == "open" and not hasattr(obj, attr):
                    orig = builtins.open          # a module using the builtin `open`
                elif not hasattr(obj, attr):
                    continue
                else:
                    orig = getattr(obj, attr)
                found = True
                self._set(obj, attr, self._wrapper(label, orig, how))
            if not found:
                self.unresolved.append(label)

    def _wrapper(self, label, orig, how):
        session = self
        if how in ("open", "openm"):
            pos = 1 if how == "open" else 2

            def opener(*args, **kwargs):
                mode = args[pos] if len(args) > pos else kwargs.get("mode", "r")
                if "w" not in mode:
                    return orig(*args, **kwargs)
                session.hit(label)
                return HandleProxy(orig(*args, **kwargs), session)
            return opener

        if how == "call":
            return CallableProxy(orig, session, label)

        def wrapper(*args, **kwargs):
            session.hit(label)
            return orig(*args, **kwargs)
        if how == "cls":
            return staticmethod(wrapper)     # `orig` is already bound to the class
        return wrapper

    def restore(self):
        for obj, attr, had, old in reversed(self.saved):
            if had:
                setattr(obj, attr, old)
            else:
                delattr(obj, attr)
        self.saved = []


# ------------------------------------------------------------------------------------------------ directories

BACKUP_RE = re.compile(r"^#(.+)\.(0|[1-9][0-9]*)#$")


def path_json(name):
    """directory entry -> the model's structured path (see Model/Output.lean)"""
    m = BACKUP_RE.match(name)
    if m:
        return ["b", m.group(1), int(m.group(2))]
    return ["f", name]


def listing(directory):
    out = []
    for name in sorted(os.listdir(directory)):
        full = os.path.join(directory, name)
        if os.path.islink(full) and not os.path.exists(full):
            continue        # a dangling link holds nothing: the path reads as absent (as it does for the programs)
        with open(full, newline="") as handle:       # a link is read through: what a user sees at that path
            out.append([path_json(name), handle.read()])
    return out


def canon_fs(entries, user_only=True):
    rows = [[p, c] for p, c in entries if not (user_only and p[0] == "t")]
    return sorted(rows, key=lambda r: json.dumps(r[0]))


def tmp_contents(entries):
    return sorted(c for p, c in entries if p[0] == "t")


def prestates(out, rng, extra_random):
    states = [
        ("empty", {}),
        ("other", {"notes.txt": "n\n"}),
        ("exists", {out: OLD}),
        ("exists-empty", {out: ""}),
        ("exists-1byte", {out: "x", "#%s.1#" % out: ""}),
        ("exists+bk1", {out: OLD, "#%s.1#" % out: "B1\n"}),
        ("exists+gap", {out: OLD, "#%s.2#" % out: "B2\n", "notes.txt": "n\n"}),
        ("exists+bk1-3", {out: OLD, "#%s.1#" % out: "B1\n", "#%s.2#" % out: "B2\n", "#%s.3#" % out: "B3\n"}),
        ("bk1-only", {"#%s.1#" % out: "B1\n"}),
        ("lookalike", {out: OLD, "#%s.01#" % out: "z\n", "#other.1#": "y\n", "#%s.1" % out: "w\n"}),
    ]
    for i in range(extra_random):
        files = {}
        if rng.random() < 0.7:
            files[out] = "OLD%d\n" % i
        for k in range(1, 7):
            if rng.random() < 0.45:
                files["#%s.%d#" % (out, k)] = "B%d\n" % k
        if rng.random() < 0.5:
            files["zz.dat"] = "zz\n"
        states.append(("random%d" % i, files))
    return states


def output_names(default):
    """output file names a user may ask for: the programs must write exactly there whatever the name looks
    like (no suffix, another suffix, several dots, upper-case suffix, blanks, a trailing dot part)"""
    ext = os.path.splitext(default)[1]            # .itp / .gro / .json
    # the suffix of ANOTHER structure / parameter format is a name like any other (model.pdb for gen_coords)
    other = {".gro": ".pdb", ".itp": ".top", ".json": ".txt"}.get(ext, ".dat")
    # ... and so are names with characters that mean something to glob / fnmatch / regular expressions
    return ["coords", "model" + other, "out[v2]" + ext, "melt.300K", "start" + ext.upper(), "run_1.5nm", "my out" + ext,
            "a.b.c" + ext, default + ".bak", "v2." + default, "MODEL" + other.upper(), "a*b?" + ext, "x+y(1)" + ext]


def name_class(out, default):
    if out == default:
        return "default"
    ext = os.path.splitext(default)[1]
    if "." not in out:
        return "no-suffix"
    if out.endswith(ext):
        return "usual-suffix(dots/blanks)"
    if out.lower().endswith(ext):
        return "upper-case-suffix"
    return "other-suffix"


def neighbours(out, default):
    """files with similar names that a wrongly derived output path would hit"""
    ext = os.path.splitext(default)[1]
    stem = os.path.splitext(out)[0]
    names = [stem + ext, out + ext, stem, stem + ext.upper(), out.lower(), "#%s.1#" % (stem + ext)]
    return {n: "NEIGHBOUR %d\n" % i for i, n in enumerate(names) if n and n != out}


def name_states(out, default):
    near = neighbours(out, default)
    return [("fresh+neighbours", dict(near)), ("exists+neighbours", dict(near, **{out: OLD})),
            ("exists+bk1+neighbours", dict(near, **{out: OLD, "#%s.1#" % out: "B1\n"}))]


def reset_writer(tmpdir):
    """a fresh process as far as the deferred writer is concerned"""
    from vermouth.file_writer import DeferredFileWriter
    writer = DeferredFileWriter()
    writer.close()
    writer._tmpdir = tmpdir  # pylint: disable=protected-access
    return writer


def other_device_dir(reference):
    """a writable directory on another filesystem than `reference`, or None"""
    if os.environ.get("VERIF_C20_SIMULATE_EXDEV") == "1":
        return None
    try:
        dev = os.stat(reference).st_dev
    except OSError:
        return None
    for cand in ("/dev/shm", "/run/shm", "/var/tmp", os.path.expanduser("~"), "/tmp"):
        try:
            if os.path.isdir(cand) and os.access(cand, os.W_OK) and os.stat(cand).st_dev != dev:
                return cand
        except OSError:
            continue
    return None


def install_exdev(session):
    """simulate a temporary directory on another filesystem than the output directory: os.rename fails with
    EXDEV, so shutil.move falls back to copy + unlink (what happens with $TMPDIR on tmpfs and the output on
    a disk).  Only used when no second filesystem is available."""
    import errno
    orig = os.rename

    def rename(src, dst, *args, **kwargs):
        raise OSError(errno.EXDEV, "Invalid cross-device link (simulated)", str(src))
    session._set(os, "rename", rename)  # pylint: disable=protected-access
    return orig


def execute(prog, call, indir, outdir, out, table, crash_label=None, crash_write=None, relative=False,
            reset=True, tmpdir=None, xdev=False):
    """run the real program once; returns (session, error-or-None)"""
    import numpy as np
    if reset:
        reset_writer(tmpdir)
    session = Session(prog, crash_label, crash_write)
    if xdev and tmpdir is not None and os.stat(tmpdir).st_dev == os.stat(outdir).st_dev:
        install_exdev(session)
    np.random.seed(20)
    random.seed(20)
    cwd = os.getcwd()
    error = None
    session.install(table)
    # gen_seq's stage "open" is the builtin; for the deferred programs a builtin open of the output path is
    # not part of the stage list (label outside the model) but is still seen and can be interrupted
    session.install_builtin_open(Path(outdir) / out, "open" if prog == "gen_seq" else "builtin-open(output)")
    try:
        if relative == "subdir":
            # the output in a sub-directory of the working directory, given as a relative path
            os.chdir(os.path.dirname(outdir))
            call(indir, Path(os.path.basename(outdir)) / out)
        elif relative:
            os.chdir(outdir)
            call(indir, Path(out))
        else:
            call(indir, Path(outdir) / out)
    except Injected:
        pass
    except Exception as err:  # pylint: disable=broad-except
        error = "%s: %s" % (type(err).__name__, err)
    finally:
        session.restore()
        os.chdir(cwd)
    return session, error


def populate(outdir, files):
    """files: name -> text, or name -> {"link": target}: a symbolic link to `target` (relative, same directory;
    the target need not exist)"""
    for name, text in files.items():
        if isinstance(text, dict):
            os.symlink(text["link"], os.path.join(outdir, name))
            continue
        with open(os.path.join(outdir, name), "w") as handle:
            handle.write(text)


# ------------------------------------------------------------------------------------------------ the check

def split_chunks(writes):
    """the model sees the serialisation as two chunks (crash between them = half-written temporary file)"""
    half = len(writes) // 2
    return half, ["".join(writes[:half]), "".join(writes[half:])]


def canon_trace(stage_rows, labels):
    """order of compute stages between two filesystem-relevant stages is not property relevant: compare
    the segments as sorted lists"""
    kinds = dict((label, kind) for kind, label in stage_rows)
    out, seg = [], []
    for label in labels:
        if kinds.get(label, "compute") == "compute":
            seg.append(label)
        else:
            out.append(sorted(seg))
            out.append(label)
            seg = []
    out.append(sorted(seg))
    return out


def plan_variant(ctx, prog, vname, flags, out, call, table, indir, scratch):
    """reference run (no fault): trace, write chunks; model stage list; returns the plan or None"""
    outdir = tempfile.mkdtemp(dir=scratch)
    tmpdir = tempfile.mkdtemp(dir=scratch)
    extra, follows = unnamed_targets(ctx, prog, flags)
    table = dict(table, **extra)
    session, error = execute(prog, call, indir, outdir, out, table, tmpdir=tmpdir)
    replay = dict(program=prog, variant=vname, crash=None, state="empty")
    if error is not None or session.crashed:
        # not a statement about C20 (the success clause is conditional): the property cannot be exercised
        ctx.tie_broken("correspondence", "correspondence:reference-run:%s" % prog,
                       "%s/%s fails on a valid input without any injected fault: %s" % (prog, vname, error), replay)
        return None
    half, chunks = split_chunks(session.writes)
    answer = ctx.driver.ask([dict(op="stages", prog=prog, flags=flags, out=out, chunks=chunks)])[0]
    rows = [tuple(r) for r in answer["stages"]]
    # stages the harness cannot interpose any more (function renamed / moved) are dropped from the crash
    # points; losing a filesystem-relevant one breaks the tie
    labels_model = [label for kind, label in rows if not kind.startswith("write")]
    write_label = next((label for kind, label in rows if kind.startswith("write")), None)
    observed = list(session.trace)
    # compute stages whose function no longer exists / is no longer called (renamed, inlined: a harmless
    # refactoring) are dropped from the crash points and tallied; the filesystem-relevant stages must be
    # there, and so must most of the compute stages (else the stage list no longer describes the program)
    unresolved = set(l for l in session.unresolved if l in labels_model)
    unresolved |= set(label for kind, label in rows if kind == "compute" and label not in observed)
    expected = [l for l in labels_model if l not in unresolved]
    essential = [label for kind, label in rows if kind in ("openDeferred", "flush", "openDirect")]
    ncompute = sum(1 for kind, _ in rows if kind == "compute")
    lost = [l for l in essential if l in session.unresolved or l not in observed]
    if lost or 2 * len(unresolved) > ncompute:
        ctx.tie_broken("correspondence", "correspondence:stage-resolution:%s" % prog,
                       "stages of %s/%s not reached in a fault-free run: %s" % (prog, vname, sorted(set(lost) | unresolved)),
                       replay)
        if lost:
            return search_without_plan(ctx, prog, vname, flags, out, call, table, indir, scratch)
    for label in unresolved:
        ctx.tally(unreached_stage="%s:%s" % (prog, label))
    # only labels of this variant's stage list count (other functions of the table may also be called)
    observed = [l for l in observed if l in set(labels_model)]
    ctx.correspond("stage-order:%s" % prog, canon_trace(rows, observed), canon_trace(rows, expected), replay)
    ctx.traces += 1
    content = "".join(chunks)
    if not os.path.exists(os.path.join(outdir, out)):
        # the program returned normally, yet there is no output (e.g. the writer flushed before the file was
        # written): the success clause fails on this very run
        what = ("%s (%s) finished without error on a valid input in an empty directory but %r does not exist "
                "(directory: %s)" % (prog, vname, out, sorted(os.listdir(outdir))))
        if prog in ("gen_params", "gen_coords"):
            ctx.oracle_fail("success-without-complete-file-or-backup", what, dict(replay, files={}))
        else:
            ctx.tie_broken("correspondence", "correspondence:reference-run:%s" % prog, what, replay)
        return None
    with open(os.path.join(outdir, out), newline="") as handle:
        produced = handle.read()
    if produced != content:
        ctx.tie_broken("correspondence", "correspondence:recorded-writes",
                       "%s/%s: text written through the interposed handle differs from the file" % (prog, vname), replay)
    # source calls the stage list does not name and that this variant reaches: (label, model crash index = index
    # of the named stage that follows in the source; a fault there leaves the model in the same state)
    row_labels = [label for _, label in rows]
    extras = []
    for label in session.trace:
        if label in extra:
            nxt = follows.get(label)
            if nxt in row_labels:
                extras.append((label, row_labels.index(nxt)))
            ctx.tally(unnamed_stage="%s:%s" % (prog, label[4:]))
    return dict(prog=prog, vname=vname, flags=flags, out=out, call=call, rows=rows, chunks=chunks, half=half,
                content=content, unresolved=unresolved, nwrites=len(session.writes), write_label=write_label,
                table=table, extras=extras)


def search_without_plan(ctx, prog, vname, flags, out, call, table, indir, scratch):
    """The filesystem-relevant stages of the model are no longer found in the program (the tie is reported
    broken).  Still look for a failing input: crash at every stage function that is reached, judge the
    directory with the specification only (no comparison with the model)."""
    outdir = tempfile.mkdtemp(dir=scratch)
    tmpdir = tempfile.mkdtemp(dir=scratch)
    session, _ = execute(prog, call, indir, outdir, out, table, tmpdir=tmpdir)
    content = ""
    if os.path.exists(os.path.join(outdir, out)):
        with open(os.path.join(outdir, out), newline="") as handle:
            content = handle.read()
    answer = ctx.driver.ask([dict(op="stages", prog=prog, flags=flags, out=out, chunks=[content])])[0]
    rows = [tuple(r) for r in answer["stages"]]
    reached = set(session.trace)
    unresolved = set(label for kind, label in rows if not kind.startswith("write") and label not in reached)
    return dict(prog=prog, vname=vname, flags=flags, out=out, call=call, rows=rows, chunks=[content], half=0,
                content=content, unresolved=unresolved, nwrites=len(session.writes), write_label=None, tie=False)


def crash_points(plan):
    """(model crash index, label to raise at | None, write number to raise at | None)"""
    points = []
    seen_write = 0
    if not plan.get("tie", True):
        # no usable stage list: interrupt the serialisation wherever the output (or its temporary file) is
        # written, judged as "before the flush" (model index of the first write stage)
        first_write = next((i for i, (k, _) in enumerate(plan["rows"]) if k.startswith("write")), None)
        if first_write is not None and plan["nwrites"]:
            for wnum in sorted(set([0, plan["nwrites"] // 2, plan["nwrites"] - 1])):
                points.append((first_write, None, wnum))
    for idx, (kind, label) in enumerate(plan["rows"]):
        if kind.startswith("write") and not plan.get("tie", True):
            continue
        if kind.startswith("write"):
            points.append((idx, None, 0 if seen_write == 0 else plan["half"]))
            seen_write += 1
        elif label not in plan["unresolved"]:
            points.append((idx, label, None))
    points.append((None, None, None))       # no fault
    return points


def before_writing(plan, crash):
    """does the property's first sentence speak about this crash point?  deferred programs: every stage up
    to and including the flush call; gen_seq: every stage up to and including builtin open()"""
    kinds = [k for k, _ in plan["rows"]]
    if crash is None:
        return False
    if "flush" in kinds:
        return crash <= kinds.index("flush")
    return crash <= kinds.index("openDirect")


def run_one(ctx, plan, table, indir, scratch, state_name, files, point, relative=False, xdev=False, out_name=None):
    crash, label, wnum = point
    out = out_name or plan["out"]
    outdir = tempfile.mkdtemp(dir=scratch)
    tmpdir = tempfile.mkdtemp(dir=scratch)
    if xdev:
        # the writer's temporary files on another filesystem than the output directory: a real one when the
        # machine has one, else os.rename is made to fail with EXDEV (see install_exdev)
        other = other_device_dir(outdir)
        if other is not None:
            tmpdir = tempfile.mkdtemp(prefix="c20_xdev_", dir=other)
            ctx.tally(cross_device="real:%s" % other)
        else:
            ctx.tally(cross_device="simulated EXDEV")
    populate(outdir, files)
    before = listing(outdir)
    session, error = execute(plan["prog"], plan["call"], indir, outdir, out, table,
                             crash_label=label, crash_write=wnum, relative=relative, tmpdir=tmpdir, xdev=xdev)
    after = listing(outdir)
    tmps = []
    for name in sorted(os.listdir(tmpdir)):
        with open(os.path.join(tmpdir, name), newline="") as handle:
            tmps.append(handle.read())
    from vermouth.file_writer import DeferredFileWriter
    queue = len(DeferredFileWriter().open_files)
    shutil.rmtree(outdir, ignore_errors=True)
    if xdev:
        shutil.rmtree(tmpdir, ignore_errors=True)
    replay = dict(program=plan["prog"], variant=plan["vname"], crash=crash, crash_label=label, crash_write=wnum,
                  state=state_name, files=files, relative=relative, xdev=xdev, out=out)
    impl = dict(fs=canon_fs(after), tmp=sorted(tmps), queue=queue,
                crashed=session.crashed, error=error)
    request = dict(op="runs", fs=before,
                   runs=[dict(prog=plan["prog"], flags=plan["flags"], out=out, chunks=plan["chunks"],
                              crash=crash)])
    if crash is not None and before_writing(plan, crash):
        spec = dict(op="spec_unchanged", before=before, after=after)
    elif crash is None:
        # the oracle looks at exactly the path that was requested
        spec = dict(op="spec_success", before=before, after=after, out=out, content=plan["content"])
    else:
        spec = dict(op="spec_unchanged", before=before, after=before)   # not judged (placeholder)
    return dict(replay=replay, impl=impl, before=before, after=after, reqs=[request, spec], crash=crash,
                plan=plan, state=state_name)


def judge(ctx, case, answers):
    model, spec = answers
    plan, crash, replay = case["plan"], case["crash"], case["replay"]
    impl = case["impl"]
    want = dict(fs=canon_fs(model["fs"]), tmp=tmp_contents(model["fs"]), queue=len(model["queue"]),
                crashed=crash is not None, error=None)
    if plan.get("tie", True):
        ctx.correspond("crash-run:%s" % plan["prog"], impl, want, replay)
    judged = "no"
    if crash is not None and before_writing(plan, crash):
        judged = "no_partial"
        if not spec["holds"]:
            ctx.oracle_fail("output-touched-by-failed-run",
                            "%s (%s, output %r) failed at stage %s (%s) before writing, yet the output directory "
                            "changed: before %s after %s" % (plan["prog"], plan["vname"], replay.get("out"), crash,
                                                             replay.get("crash_label") or plan["rows"][crash][1],
                                                             case["before"], case["after"]),
                            replay)
    elif crash is None and plan["prog"] in ("gen_params", "gen_coords"):
        judged = "success"
        if not spec["holds"]:
            ctx.oracle_fail("success-without-complete-file-or-backup",
                            "%s (%s) asked to write %r succeeded but the directory is not {complete output at that "
                            "path, previous file under the first free #name.k# (k=%s), everything else untouched}: "
                            "before %s after %s" % (plan["prog"], plan["vname"], replay.get("out"), spec.get("backup"),
                                                    [(p, c[:30]) for p, c in case["before"]],
                                                    [(p, c[:30]) for p, c in case["after"]]),
                            replay)
    elif crash is None:
        # gen_seq success: the statement makes no backup promise; the complete file is in place (tie only)
        judged = "gen_seq-success(tie-only)"
    else:
        judged = "after-open(tie-only)"
    informative = case["state"] in ("exists+bk1", "exists+gap") and not replay["relative"] and \
        (crash is None or plan["rows"][crash][0] in ("writeDeferred", "flush", "openDirect")) and \
        plan["vname"] in ("seq", "plain")
    ctx.tally(output_name=name_class(replay.get("out", plan["out"]), plan["out"]))
    unnamed = str(replay.get("crash_label") or "").startswith("src:")
    if unnamed:
        ctx.tally(stream="unnamed-stage")
    ctx.case((plan["prog"], plan["vname"], crash, case["state"], replay["relative"], replay.get("xdev", False),
              replay.get("out"), replay.get("crash_label") if unnamed else None),
             sample=None if not informative or ctx.rng.random() < 0.6 else dict(input=dict(program=plan["prog"], variant=plan["vname"], crash=crash,
                                    stage=plan["rows"][crash][1] if crash is not None else None,
                                    state=case["state"]),
                         after=[p for p, _ in impl["fs"]], tmp_files=len(impl["tmp"]), queue=impl["queue"]),
             program=plan["prog"], judged=judged, state=case["state"].rstrip("0123456789"),
             stage_kind=(plan["rows"][crash][0] if crash is not None else "success"))


FF_LOG_TEXT = FF_TEXT + ("[ warning ]\nthe bond parameters were fitted for chain lengths n in {5, 10, 20} only\n"
                         "[ info ]\nno angle defined around {B[resname]}{B[resid]} and {++A[resid]}\n")


def history_cases(ctx, indir, scratch):
    """Process history WITHOUT any injected fault and WITHOUT resetting the deferred writer in between (a
    workflow script / notebook): gen_params is called three times in one directory -- to a.itp (which exists),
    to b.itp, to a.itp again -- with force fields of which some carry free-text [ warning ] / [ info ] messages
    containing braces (legal; only the logging module may complain).  After every call: a call that returned
    must satisfy the success clause for its path; a call that RAISED must have left the directory unchanged --
    and that must still be true at the end of the sequence, apart from what later successful calls legitimately
    did to THEIR paths."""
    import logging
    import polyply
    with open(os.path.join(indir, "ex_log.ff"), "w") as handle:
        handle.write(FF_LOG_TEXT)
    raise_saved = logging.raiseExceptions
    logging.raiseExceptions = False
    sequences = [[("a.itp", "ex_log.ff"), ("b.itp", "ex.ff"), ("a.itp", "ex.ff")],
                 [("a.itp", "ex.ff"), ("b.itp", "ex_log.ff"), ("a.itp", "ex_log.ff")]]
    records = []
    try:
        for seq in sequences:
            outdir = tempfile.mkdtemp(dir=scratch)
            populate(outdir, {"a.itp": OLD, "notes.txt": "n\n"})
            reset_writer(tempfile.mkdtemp(dir=scratch))
            steps = []
            for out, ff in seq:
                before = listing(outdir)
                error = None
                try:
                    polyply.gen_params(name="mol", outpath=Path(outdir) / out, inpath=[Path(indir) / ff], lib=None,
                                       seq=["AA:2", "BB:1"])
                except Exception as err:  # pylint: disable=broad-except
                    error = "%s: %s" % (type(err).__name__, str(err)[:120])
                steps.append(dict(out=out, ff=ff, before=before, after=listing(outdir), error=error))
            records.append((seq, steps))
            reset_writer(None)
    finally:
        logging.raiseExceptions = raise_saved
    reqs, notes = [], []
    for seq, steps in records:
        final = steps[-1]["after"]
        for idx, step in enumerate(steps):
            if step["error"] is None:
                content = next((c for p, c in step["after"] if p == ["f", step["out"]]), "")
                reqs.append(dict(op="spec_success", before=step["before"], after=step["after"], out=step["out"],
                                 content=content))
                notes.append((seq, idx, "success", content))
            else:
                reqs.append(dict(op="spec_unchanged", before=step["before"], after=step["after"]))
                notes.append((seq, idx, "failed-now", None))
                # ... and at the end, leaving aside the paths later successful calls wrote to
                later = set(s["out"] for s in steps[idx + 1:] if s["error"] is None)

                def keep(rows, later=later):
                    return [[p, c] for p, c in rows if p[1] not in later]
                reqs.append(dict(op="spec_unchanged", before=keep(step["before"]), after=keep(final)))
                notes.append((seq, idx, "failed-later", None))
    answers = ctx.driver.ask(reqs) if reqs else []
    for (seq, idx, kind, content), ans in zip(notes, answers):
        replay = dict(stream="process-history", program="gen_params", variant="seq", sequence=seq, step=idx)
        steps = next(st for sq, st in records if sq == seq)
        step = steps[idx]
        if kind == "success":
            good = ans["holds"] and "[ moleculetype ]" in (content or "") and "[ atoms ]" in content
            if not good:
                ctx.oracle_fail("success-without-complete-file-or-backup",
                                "call %d of the sequence %s (same process, writer not reset) returned normally but "
                                "the directory is not {complete %s, previous file under the first free backup, rest "
                                "untouched}: before %s after %s" % (idx + 1, seq, step["out"],
                                                                    [(p, c[:20]) for p, c in step["before"]],
                                                                    [(p, c[:20]) for p, c in step["after"]]), replay)
        elif not ans["holds"]:
            ctx.oracle_fail("output-touched-by-failed-run",
                            "call %d of the sequence %s (same process, writer not reset) FAILED (%s) on a legal force "
                            "field; %s the output directory differs from what it was before that call: before %s, %s %s"
                            % (idx + 1, seq, step["error"],
                               "right after it" if kind == "failed-now" else "after the later successful calls",
                               [(p, c[:20]) for p, c in step["before"]],
                               "after" if kind == "failed-now" else "at the end",
                               [(p, c[:20]) for p, c in (step["after"] if kind == "failed-now" else steps[-1]["after"])]),
                            replay)
        ctx.tally(process_history="call %s" % ("returned" if kind == "success" else "raised"))
        ctx.case(("process-history", json.dumps(seq), idx, kind), program="gen_params", judged="process-history:" + kind)


def missing_dir_cases(ctx, plans, indir, scratch):
    """The directory of the requested output path does not exist (typo, results directory not created yet) while
    the working directory holds a file of the same base name.  No injected fault.  A run that RAISES must leave
    the working directory unchanged; a run that RETURNS must have put the file at the requested path (and may not
    have touched anything else)."""
    cases = []
    for plan in plans:
        if plan["vname"] not in ("seq", "plain"):
            continue
        outdir = tempfile.mkdtemp(dir=scratch)
        populate(outdir, {plan["out"]: OLD, "notes.txt": "n\n"})
        reset_writer(tempfile.mkdtemp(dir=scratch))
        before = listing(outdir)
        target = Path(outdir) / "results_not_made" / plan["out"]
        cwd = os.getcwd()
        error = None
        try:
            os.chdir(outdir)
            import numpy as np
            np.random.seed(20)
            random.seed(20)
            plan["call"](indir, target)
        except Exception as err:  # pylint: disable=broad-except
            error = "%s: %s" % (type(err).__name__, str(err)[:100])
        finally:
            os.chdir(cwd)
            reset_writer(None)
        sub = os.path.join(outdir, "results_not_made")
        made = os.path.isfile(str(target))
        if os.path.isdir(sub):
            shutil.rmtree(sub, ignore_errors=True)
        cases.append((plan, before, listing(outdir), error, made))
    answers = ctx.driver.ask([dict(op="spec_unchanged", before=b, after=a) for _, b, a, _, _ in cases]) if cases else []
    for (plan, before, after, error, made), ans in zip(cases, answers):
        replay = dict(stream="missing-directory", program=plan["prog"], variant=plan["vname"])
        if error is None and not made:
            ctx.oracle_fail("success-without-complete-file-or-backup",
                            "%s (%s) asked to write results_not_made/%s (directory does not exist) RETURNED NORMALLY "
                            "although nothing exists at the requested path; working directory before %s after %s"
                            % (plan["prog"], plan["vname"], plan["out"], [(p, c[:20]) for p, c in before],
                               [(p, c[:20]) for p, c in after]), replay)
        if not ans["holds"]:
            ctx.oracle_fail("output-touched-by-failed-run" if error else "success-without-complete-file-or-backup",
                            "%s (%s) asked to write results_not_made/%s (directory does not exist; outcome: %s) changed "
                            "the working directory, which holds a file of the same name: before %s after %s"
                            % (plan["prog"], plan["vname"], plan["out"], error or "returned",
                               [(p, c[:20]) for p, c in before], [(p, c[:20]) for p, c in after]), replay)
        ctx.tally(missing_directory="%s: %s" % (plan["prog"], "raised" if error else "returned"))
        ctx.case(("missing-directory", plan["prog"], plan["vname"]), program=plan["prog"], judged="missing-directory")


def stale_cases(ctx, plans, table, indir, scratch):
    """Outside the property's quantifier: a failed run followed by a successful run IN THE SAME PROCESS
    without resetting the singleton writer.  Correspondence with the model only."""
    cases = []
    for plan in plans:
        kinds = [k for k, _ in plan["rows"]]
        if "flush" not in kinds or not plan.get("tie", True):
            continue
        first_write = next(i for i, k in enumerate(kinds) if k == "writeDeferred")
        for crash, wnum in ((first_write + 1, plan["half"]), (kinds.index("flush"), None)):
            for same_out in (False, True):
                outdir = tempfile.mkdtemp(dir=scratch)
                tmpdir = tempfile.mkdtemp(dir=scratch)
                files = {plan["out"]: OLD}
                populate(outdir, files)
                before = listing(outdir)
                label = plan["rows"][crash][1] if wnum is None else None
                ses1, err1 = execute(plan["prog"], plan["call"], indir, outdir, plan["out"], table[plan["prog"]],
                                     crash_label=label, crash_write=wnum, tmpdir=tmpdir)
                mid = listing(outdir)
                out2 = plan["out"] if same_out else "second_" + plan["out"]
                ses2, err2 = execute(plan["prog"], plan["call"], indir, outdir, out2, table[plan["prog"]], reset=False)
                after = listing(outdir)
                reset_writer(None)
                shutil.rmtree(outdir, ignore_errors=True)
                run1 = dict(prog=plan["prog"], flags=plan["flags"], out=plan["out"], chunks=plan["chunks"], crash=crash)
                run2 = dict(prog=plan["prog"], flags=plan["flags"], out=out2, chunks=plan["chunks"], crash=None)
                cases.append(dict(plan=plan, crash=crash, same_out=same_out, before=before, mid=mid, after=after,
                                  errors=[err1, err2], crashed=[ses1.crashed, ses2.crashed],
                                  reqs=[dict(op="runs", fs=before, runs=[run1, run2]),
                                        dict(op="spec_unchanged", before=before, after=mid)]))
    answers = ctx.driver.ask([r for c in cases for r in c["reqs"]])
    for i, case in enumerate(cases):
        model, spec_mid = answers[2 * i], answers[2 * i + 1]
        plan = case["plan"]
        replay = dict(program=plan["prog"], variant=plan["vname"], crash=case["crash"], same_out=case["same_out"],
                      stream="stale-queue")
        ctx.correspond("stale-queue:%s" % plan["prog"],
                       dict(fs=canon_fs(case["after"]), errors=case["errors"], crashed=case["crashed"]),
                       dict(fs=canon_fs(model["fs"]), errors=[None, None], crashed=[True, False]), replay)
        if not spec_mid["holds"]:
            ctx.oracle_fail("output-touched-by-failed-run", "failed run changed the directory: %s" % (replay,), replay)
        old_out = next((c for p, c in case["after"] if p == ["f", plan["out"]]), None)
        ctx.tally(stale_queue=("same-out: one file, flushed once" if case["same_out"] else
                               ("later run of the process published the failed run's temporary file (%s)"
                                % ("complete" if old_out == plan["content"] else "TRUNCATED")
                                if old_out != OLD else "failed run's file not published")))
        ctx.case(("stale", plan["prog"], plan["vname"], case["crash"], case["same_out"]), program=plan["prog"],
                 judged="stale-queue(tie-only)")


class Bench:
    """scratch directories + the plans (reference runs) of the selected variants"""

    def __init__(self, ctx, only=None):
        self.ctx = ctx
        self.table = targets()
        self.scratch = tempfile.mkdtemp(prefix="c20_")
        self.indir = os.path.join(self.scratch, "inputs")
        os.makedirs(self.indir)
        write_inputs(self.indir)
        self.plans = []
        for prog, vname, flags, out, call in variants():
            if only is not None and (prog, vname) not in only:
                continue
            plan = plan_variant(ctx, prog, vname, flags, out, call, self.table[prog], self.indir, self.scratch)
            if plan is not None:
                self.plans.append(plan)

    def one(self, plan, sname, files, point, relative=False, xdev=False, out_name=None):
        return run_one(self.ctx, plan, plan.get("table", self.table[plan["prog"]]), self.indir, self.scratch, sname,
                       files, point,
                       relative=relative, xdev=xdev, out_name=out_name)

    def judge_all(self, cases):
        answers = self.ctx.driver.ask([r for c in cases for r in c["reqs"]])
        for i, case in enumerate(cases):
            judge(self.ctx, case, answers[2 * i: 2 * i + 2])

    def close(self):
        reset_writer(None)
        shutil.rmtree(self.scratch, ignore_errors=True)


def run_plans(ctx):
    bench = Bench(ctx)
    try:
        cases = []
        for plan in bench.plans:
            states = prestates(plan["out"], ctx.rng, ctx.budget(1, 12))
            points = crash_points(plan)
            for sname, files in states:
                for point in points:
                    cases.append(bench.one(plan, sname, files, point))
            # stream unnamed-stage: a fault at every call of the source that the stage list does not name
            # (constructors, np.loadtxt, helpers one level down ...), on a directory that holds the output
            by_name = dict(states)
            for label, idx in plan.get("extras", []):
                for sname in ("exists+bk1",) + (("empty", "exists+gap") if ctx.thorough else ()):
                    cases.append(bench.one(plan, sname, dict(by_name[sname]), (idx, label, None)))
            # the output path is a SYMBOLIC LINK (results linked to a project file system): to an existing file
            # of the directory -- read through, it is "a file previously at that path", so on success its content
            # must sit under the backup name, the new file at the path, the link's target untouched -- or
            # dangling (reads as absent).  Deferred programs only (gen_seq writes through the link by design of
            # builtin open, and the statement's second sentence is not about it)
            if any(k == "flush" for k, _ in plan["rows"]):
                kinds_ = [k for k, _ in plan["rows"]]
                sel = {0, kinds_.index("flush")}
                for sname, files in (("symlink-existing", {plan["out"]: {"link": "store.dat"}, "store.dat": OLD}),
                                     ("symlink-existing+bk1", {plan["out"]: {"link": "store.dat"}, "store.dat": OLD,
                                                               "#%s.1#" % plan["out"]: "B1\n"}),
                                     ("symlink-dangling", {plan["out"]: {"link": "nowhere.dat"}})):
                    for point in points:
                        if point[0] is None or point[0] in sel:
                            cases.append(bench.one(plan, sname, files, point))
            # relative output path with the output directory as working directory
            for point in points:
                cases.append(bench.one(plan, "exists+bk1", dict(by_name["exists+bk1"]), point, relative=True))
            # other output file NAMES (with look-alike neighbours in the directory), absolute / relative /
            # sub-directory paths: a few crash points (first stage, open, half-written, flush) + success
            kinds = [k for k, _ in plan["rows"]]
            wanted = {0, len(kinds) - 1}
            for kind in ("openDeferred", "openDirect", "flush"):
                if kind in kinds:
                    wanted.add(kinds.index(kind))
            writes = [i for i, k in enumerate(kinds) if k.startswith("write")]
            if writes:
                wanted.add(writes[-1])
            some_points = [pt for pt in points if pt[0] is None or pt[0] in wanted]
            names = output_names(plan["out"])
            if not ctx.thorough:
                names = names[:5] + ctx.rng.sample(names[5:], 1)
            for n_idx, name in enumerate(names):
                mode = [False, True, "subdir"][n_idx % 3]
                for sname, files in name_states(name, plan["out"])[:(3 if ctx.thorough else 2)]:
                    for point in some_points:
                        cases.append(bench.one(plan, sname, files, point, relative=mode, out_name=name))
            # temporary directory and output directory on different filesystems (move = copy + unlink)
            if any(k == "flush" for k, _ in plan["rows"]):
                for sname in ("empty", "exists", "exists+bk1"):
                    for point in points:
                        cases.append(bench.one(plan, sname, dict(by_name[sname]), point, xdev=True))
        bench.judge_all(cases)
        stale_cases(ctx, bench.plans, bench.table, bench.indir, bench.scratch)
        history_cases(ctx, bench.indir, bench.scratch)
        missing_dir_cases(ctx, bench.plans, bench.indir, bench.scratch)
    finally:
        bench.close()


def run(ctx):
    ctx.extra["rule"] = RULE
    ctx.extra["trusted"] = [
        "atomicity of shutil.move / os.rename, tempfile.mkstemp freshness (OS; modelled as map updates)",
        "directory entries are mapped to the model's structured paths by harness/c20.py:path_json "
        "(#<name>.<k># with canonical decimal k = backup k of <name>)",
        "harness/tables/output.py: the walk over the function bodies (source order, helpers of the same module "
        "expanded) and its list of benign callees (builtins except open, LOGGER.*, container/string housekeeping)",
        "the fault is an exception raised on entry of the interposed stage function (or before the n-th "
        "write on the output handle); faults inside a stage function are represented by its entry",
    ]
    ctx.extra["explanation"] = (
        "C20 is partial: OS rename atomicity and reuse of the singleton DeferredFileWriter by a later run of "
        "the same process are outside the model's theorems (the latter is exercised as a correspondence-only "
        "stream and reported in notes/C20_findings.md).")
    ctx.assumptions.append("the DeferredFileWriter singleton is reset (close()) before every run: one run = one process")
    ctx.assumptions.append("output paths are plain names (not themselves of the form #name.k#)")
    run_plans(ctx)


def replay(ctx, data):
    inp = data.get("input") or {}
    inputs = [inp] if inp else [i["input"] for i in data.get("no_longer_checks", []) if i.get("input")]
    for item in data.get("no_longer_checks", []):
        print("no longer checks:", item["name"], "-", item["detail"][:300])
    only = set((i["program"], i["variant"]) for i in inputs)
    bench = Bench(ctx, only=only)
    try:
        cases = []
        stale = False
        if any(i.get("stream") == "missing-directory" for i in inputs):
            missing_dir_cases(ctx, bench.plans, bench.indir, bench.scratch)
            inputs = [i for i in inputs if i.get("stream") != "missing-directory"]
        if any(i.get("stream") == "process-history" for i in inputs):
            history_cases(ctx, bench.indir, bench.scratch)
            inputs = [i for i in inputs if i.get("stream") != "process-history"]
        for item in inputs:
            plan = next((p for p in bench.plans if (p["prog"], p["vname"]) == (item["program"], item["variant"])), None)
            if plan is None:
                continue
            if item.get("stream") == "stale-queue":
                stale = True
                continue
            if "files" not in item:
                continue        # the reference run itself (re-executed by Bench)
            point = (item.get("crash"), item.get("crash_label"), item.get("crash_write"))
            cases.append(bench.one(plan, item.get("state", "replay"), item["files"], point,
                                   relative=item.get("relative", False), xdev=item.get("xdev", False),
                                   out_name=item.get("out")))
        bench.judge_all(cases)
        if stale:
            stale_cases(ctx, bench.plans, bench.table, bench.indir, bench.scratch)
    finally:
        bench.close()
    for b in ctx.broken:
        print("REPLAY-DISAGREES", b["name"], b["detail"][:400])
