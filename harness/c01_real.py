"""C01/C13 helper: drive the REAL program in-process on a generated force field + residue graph and return
canonical dumps of the observable state after each stage (used by harness/c01.py and harness/c13.py).

Stages: `load_ff_library` (real `.ff` / `.itp` parsers on temp files) -> `MapToMolecule.run_molecule` ->
`ApplyLinks.run_molecule` -> `ApplyModifications.run_molecule`; and end to end `gen_params` writing a
`.itp` that is read back by a small tokenizer.
Interposition (attribute assignment inside this process only): `ApplyLinks.apply_link_between_residues`
is wrapped to record which interaction keys / atom attributes each applied link targets, and
`polyply.src.apply_links.expand_excl` to snapshot the molecule before exclusions are generated.
"""
import contextlib
import io
import json
import os
import pathlib
import sys
import tempfile

import ffgen_c01 as gen

ATOM_KEYS = ("atomname", "atype", "resname", "charge", "mass")


def tok(value):
    """opaque token of an attribute / parameter / meta value"""
    if isinstance(value, str):
        return value
    if isinstance(value, bool):
        return repr(value)
    if isinstance(value, int):
        return str(value)
    if isinstance(value, float):
        return repr(value)
    try:
        import numpy
        if isinstance(value, numpy.integer):
            return str(int(value))
        if isinstance(value, numpy.floating):
            return repr(float(value))
    except ImportError:
        pass
    return repr(value)


def meta_tok(value):
    return json.dumps(value, sort_keys=True, default=repr)


def canon_meta(meta):
    return sorted([str(k), meta_tok(v)] for k, v in dict(meta).items())


def dump_atoms(mol):
    out = []
    for node in sorted(mol.nodes):
        data = mol.nodes[node]
        attrs = [[k, tok(data[k])] for k in ATOM_KEYS if k in data and data[k] is not None]
        out.append([int(node), int(data.get("resid", -1)), int(data.get("charge_group", -1)), attrs])
    return out


def dump_ixns(mol):
    out = []
    for sect, lst in mol.interactions.items():
        for ixn in lst:
            out.append([sect, [int(a) for a in ixn.atoms], [tok(p) for p in ixn.parameters], canon_meta(ixn.meta)])
    return out


def dump_mol(mol):
    return dict(atoms=dump_atoms(mol), ixns=dump_ixns(mol), nrexcl=mol.nrexcl)


def dump_graphs(meta):
    out = []
    for key in meta.nodes:
        graph = meta.nodes[key].get("graph")
        out.append([json.dumps(key), int(meta.nodes[key]["resid"]),
                    sorted(int(n) for n in graph.nodes) if graph is not None else None])
    return sorted(out, key=lambda item: item[1])


# ------------------------------------------------------------------------------------------------ abstract -> model JSON

def atom_attrs(atom):
    attrs = [["atomname", atom["atomname"]], ["atype", atom["atype"]], ["resname", atom["resname"]],
             ["charge", tok(float(atom["charge"]))]]
    if atom.get("mass") is not None:
        attrs.append(["mass", tok(float(atom["mass"]))])
    return attrs


def model_ff(ff):
    """the abstract force field in the driver's JSON layout"""
    blocks = []
    for b in ff["blocks"]:
        blocks.append(dict(name=b["name"], nrexcl=b["nrexcl"],
                           atoms=[[a["resid"], a["cgrp"], atom_attrs(a)] for a in b["atoms"]],
                           ixns=[[i["sect"], list(i["atoms"]), list(i["params"]), canon_meta(i["meta"])]
                                 for i in b["ixns"]]))
    mods = []
    for m in ff["mods"]:
        mods.append(dict(name=m["name"],
                         atoms=[[name, [[k, tok(v)] for k, v in replace.items()]] for name, replace in m["atoms"]],
                         ixns=[[i["sect"], list(i["atoms"]), list(i["params"]), []] for i in m["ixns"]]))
    return dict(blocks=blocks, mods=mods)


def model_graph(graph):
    return dict(nodes=[[json.dumps(k), resid, resname, from_itp] for k, resid, resname, from_itp in graph["nodes"]],
                edges=[[json.dumps(e[0]), json.dumps(e[1])] for e in graph["edges"]])


# ------------------------------------------------------------------------------------------------ real code

def write_files(files, tmpdir):
    """one file per entry; files of the same extension get the SAME base name in different directories
    (as two libraries ship their `links.ff`), a single file of an extension lies in `tmpdir` itself"""
    paths = []
    exts = [ext for ext, _ in files]
    for idx, (ext, chunks) in enumerate(files):
        if exts.count(ext) > 1:
            folder = pathlib.Path(tmpdir) / ("in_dir%d" % idx)
            folder.mkdir(exist_ok=True)
            path = folder / ("input.%s" % ext)
        else:
            path = pathlib.Path(tmpdir) / ("in%d.%s" % (idx, ext))
        path.write_text(gen.file_text(chunks))
        paths.append(path)
    return paths


def load_real_ff(files, tmpdir, name="verif"):
    from polyply.src.load_library import load_ff_library
    return load_ff_library(name, None, write_files(files, tmpdir))


def dump_parsed_ff(ff):
    """what the real parsers produced, in the layout of `model_ff` (for the parse tie)"""
    blocks = []
    for name, block in ff.blocks.items():
        nodes = list(block.nodes)
        atoms = []
        for node in nodes:
            data = block.nodes[node]
            atoms.append([int(data.get("resid", 1)), int(data.get("charge_group", 1)),
                          [[k, tok(data[k])] for k in ATOM_KEYS if k in data]])
        ixns = []
        for sect, lst in block.interactions.items():
            for ixn in lst:
                ixns.append([sect, [nodes.index(a) for a in ixn.atoms], [tok(p) for p in ixn.parameters],
                             canon_meta(ixn.meta)])
        blocks.append(dict(name=name, nrexcl=block.nrexcl, atoms=atoms, ixns=ixns))
    mods = []
    for name, mod in ff.modifications.items():
        atoms = [[data["atomname"], [[k, tok(v)] for k, v in data.get("replace", {}).items()]]
                 for data in mod.atoms]
        ixns = [[sect, list(ixn.atoms), [tok(p) for p in ixn.parameters], canon_meta(ixn.meta)]
                for sect, lst in mod.interactions.items() for ixn in lst]
        mods.append(dict(name=name, atoms=atoms, ixns=ixns))
    return dict(blocks=sorted(blocks, key=lambda b: b["name"]), mods=sorted(mods, key=lambda m: m["name"]))


def sorted_model_ff(mff):
    return dict(blocks=sorted(mff["blocks"], key=lambda b: b["name"]), mods=sorted(mff["mods"], key=lambda m: m["name"]))


def build_meta(ff, graph, name="verif"):
    import networkx as nx
    from polyply.src.meta_molecule import MetaMolecule
    g = nx.Graph()
    for key, resid, resname, from_itp in graph["nodes"]:
        attrs = dict(resid=resid, resname=resname)
        if from_itp:
            attrs["from_itp"] = from_itp
        g.add_node(key, **attrs)
    for edge in graph["edges"]:
        if len(edge) > 2:
            g.add_edge(edge[0], edge[1], linktype=edge[2])
        else:
            g.add_edge(edge[0], edge[1])
    return MetaMolecule(g, force_field=ff, mol_name=name)


def link_requirements(meta_molecule, link, link_to_resid):
    import vermouth.molecule
    # (the program's `link_to_resid` maps link atoms to residue-graph NODE KEYS)
    link_to_resid = {node: meta_molecule.nodes[key]["resid"] for node, key in link_to_resid.items()}
    resnames = []
    for node, resid in link_to_resid.items():
        want = link.nodes[node].get("resname")
        if want is None:
            continue
        if isinstance(want, vermouth.molecule.LinkPredicate):
            allowed = list(want.value) if not isinstance(want.value, str) else [want.value]
        else:
            allowed = [want]
        resnames.append([int(resid), [str(a) for a in allowed]])
    edges = []
    for a, b, data in link.edges(data=True):
        ra, rb = link_to_resid.get(a), link_to_resid.get(b)
        if ra is None or rb is None or ra == rb:
            continue
        edges.append([int(ra), int(rb), data.get("linktype")])
    return dict(molmeta=[[str(k), tok(v)] for k, v in dict(link.molecule_meta).items()], resnames=resnames, edges=edges)


def graph_facts(meta_molecule):
    """residue-level facts the applicability of a link is judged on"""
    resid = {k: int(meta_molecule.nodes[k]["resid"]) for k in meta_molecule.nodes}
    return dict(molmeta=[[str(k), tok(v)] for k, v in dict(meta_molecule.molecule.meta).items()],
                resnames=[[resid[k], meta_molecule.nodes[k]["resname"]] for k in meta_molecule.nodes],
                edges=[[resid[u], resid[v], data.get("linktype")] for u, v, data in meta_molecule.edges(data=True)])


class LinkRecorder:
    """records, per applied link, the interaction keys it wrote and the atom attributes it replaced"""

    def __init__(self):
        self.ops = []
        self.uses = []
        self.pre_excl = None

    @contextlib.contextmanager
    def installed(self):
        import polyply.src.apply_links as al
        orig_apply = al.ApplyLinks.apply_link_between_residues
        orig_excl = al.expand_excl
        recorder = self

        def apply_wrapped(this, meta_molecule, link, link_to_resid):
            molecule = meta_molecule.molecule
            before = {t: dict(d) for t, d in this.applied_links.items()}
            attrs_before = {n: dict(molecule.nodes[n]) for n in molecule.nodes}
            removed_before = len(this.nodes_to_remove)
            applied = False
            start = len(recorder.ops)
            try:
                result = orig_apply(this, meta_molecule, link, link_to_resid)
                applied = True
                return result
            finally:
                # what an APPLIED link wrote is what it explicitly targets; whatever a link that was rejected
                # (MatchError) left behind is recorded as a leak: nothing may justify it
                for node in molecule.nodes:
                    old = attrs_before.get(node, {})
                    new = molecule.nodes[node]
                    changed = [[k, tok(v)] for k, v in new.items() if k in ATOM_KEYS and (k not in old or old[k] != v)]
                    if changed:
                        recorder.ops.append(dict(op="replace" if applied else "leak", node=int(node), attrs=changed))
                for node in this.nodes_to_remove[removed_before:]:
                    recorder.ops.append(dict(op="remove" if applied else "leak", node=int(node), attrs=[]))
                for sect, table in this.applied_links.items():
                    for key, value in table.items():
                        if key not in before.get(sect, {}) or before[sect][key] is not value:
                            ixn = value[0]
                            ixn = [sect, [int(a) for a in ixn.atoms], [tok(p) for p in ixn.parameters], canon_meta(ixn.meta)]
                            recorder.ops.append(dict(op="insert", ixn=ixn) if applied else dict(op="leak", node=-1, attrs=[], ixn=ixn))
                # what this link REQUIRES of the place it is applied to (read off the link definition, not off the
                # matcher): molecule meta data, residue names, residue-graph edges and their linktype
                use = len(recorder.uses)
                recorder.uses.append(link_requirements(meta_molecule, link, link_to_resid))
                for op in recorder.ops[start:]:
                    op["use"] = use

        def excl_wrapped(molecule):
            recorder.pre_excl = dump_mol(molecule)
            return orig_excl(molecule)

        al.ApplyLinks.apply_link_between_residues = apply_wrapped
        al.expand_excl = excl_wrapped
        try:
            yield self
        finally:
            al.ApplyLinks.apply_link_between_residues = orig_apply
            al.expand_excl = orig_excl


def parse_mods(mods):
    """[[resspec, modname]] -> [[resid|None, resname|None, modname]] with vermouth's own resspec parser"""
    from vermouth.processors.annotate_mut_mod import parse_residue_spec
    out = []
    for spec, name in mods:
        parsed = parse_residue_spec(spec)
        out.append([parsed.get("resid"), parsed.get("resname"), name])
    return out


def run_stages(files, graph, mods):
    """Run the three processors of gen_params by hand.  Returns dict(ok, parsed, map, graphs, linkops, links,
    final, err, stage)."""
    from polyply import MapToMolecule, ApplyLinks
    from polyply.src.apply_modifications import ApplyModifications
    out = dict(ok=False, stage="load")
    with tempfile.TemporaryDirectory() as tmpdir:
        try:
            ff = load_real_ff(files, tmpdir)
            out["parsed"] = dump_parsed_ff(ff)
            out["stage"] = "map"
            meta = build_meta(ff, graph)
            out["adj"] = [[json.dumps(k), [json.dumps(n) for n in meta.adj[k]]] for k in meta.nodes]
            MapToMolecule(ff).run_molecule(meta)
            out["map"] = dump_mol(meta.molecule)
            out["graphs"] = dump_graphs(meta)
            out["stage"] = "links"
            out["facts"] = graph_facts(meta)
            recorder = LinkRecorder()
            with recorder.installed():
                ApplyLinks().run_molecule(meta)
            out["linkops"] = recorder.ops
            out["linkuses"] = recorder.uses
            out["links"] = recorder.pre_excl
            out["links_excl"] = dump_mol(meta.molecule)
            out["stage"] = "mods"
            ApplyModifications(modifications=mods or [], meta_molecule=meta).run_molecule(meta)
            out["final"] = dump_mol(meta.molecule)
            out["ok"] = True
            out["stage"] = "done"
        except Exception as err:  # pylint: disable=broad-except
            out["err"] = type(err).__name__
            out["errtext"] = str(err)[:200]
    return out


# ------------------------------------------------------------------------------------------------ end to end

def read_itp(text):
    """tokenise a written .itp: dict(moltype, nrexcl, atoms=[...], sections={name: [[tokens]]}, comments=[...])"""
    section = None
    out = dict(moltype=None, nrexcl=None, atoms=[], sections={}, header=[])
    for raw in text.splitlines():
        line = raw.split(";", 1)[0].strip()
        if raw.lstrip().startswith(";") and section is None:
            out["header"].append(raw)
        if not line:
            continue
        if line.startswith("["):
            section = line.strip("[] ").strip()
            continue
        if line.startswith("#"):
            out["sections"].setdefault("#", []).append(line.split())
            continue
        tokens = line.split()
        if section == "moleculetype":
            out["moltype"], out["nrexcl"] = tokens[0], int(tokens[1])
        elif section == "atoms":
            out["atoms"].append(tokens)
        else:
            out["sections"].setdefault(section, []).append(tokens)
    return out


def run_gen_params(files, graph, mods, name="verif", argv=None, lib=None, shared=None):
    """end to end through the public `gen_params`; returns dict(ok, text|err).  `shared` = (tmpdir, list object)
    of an earlier call: the very same `inpath` list is passed again (callers may reuse their list)."""
    from polyply.src.gen_itp import gen_params
    with tempfile.TemporaryDirectory() as tmpdir:
        if shared is not None:
            paths = shared
        else:
            paths = write_files(files, tmpdir)
        seq = pathlib.Path(tmpdir) / "graph.json"
        seq.write_text(json.dumps(gen.to_json_graph(graph)))
        outpath = pathlib.Path(tmpdir) / "out.itp"
        old_argv, old_stdout = sys.argv, sys.stdout
        sys.argv = argv or ["polyply", "gen_params"]
        sys.stdout = io.StringIO()
        try:
            gen_params(name=name, outpath=outpath, inpath=paths, lib=lib, seq=None, seq_file=seq,
                       mods=[list(m) for m in (mods or [])])
            if not outpath.exists():
                return dict(ok=False, err="no-output")
            return dict(ok=True, text=outpath.read_text())
        except Exception as err:  # pylint: disable=broad-except
            return dict(ok=False, err=type(err).__name__, errtext=str(err)[:200])
        finally:
            sys.argv, sys.stdout = old_argv, old_stdout
            _drop_pending_writes()


def run_gen_params_in_dir(tmpdir, files, graph, mods, name="verif"):
    """`gen_params` on files written to FIXED paths inside `tmpdir` (in<i>.<ext>, graph.json, out.itp): a second
    call with other content re-uses the same paths, as an edit-and-rerun script does"""
    from polyply.src.gen_itp import gen_params
    for old in list(pathlib.Path(tmpdir).glob("in_dir*/*")) + list(pathlib.Path(tmpdir).glob("in*.*")):
        if old.is_file():
            old.unlink()
    paths = write_files(files, tmpdir)
    seq = pathlib.Path(tmpdir) / "graph.json"
    seq.write_text(json.dumps(gen.to_json_graph(graph)))
    outpath = pathlib.Path(tmpdir) / "out.itp"
    if outpath.exists():
        outpath.unlink()
    old_argv, old_stdout = sys.argv, sys.stdout
    sys.argv = ["polyply", "gen_params"]
    sys.stdout = io.StringIO()
    try:
        gen_params(name=name, outpath=outpath, inpath=paths, lib=None, seq=None, seq_file=seq,
                   mods=[list(m) for m in (mods or [])])
        if not outpath.exists():
            return dict(ok=False, err="no-output")
        return dict(ok=True, text=outpath.read_text())
    except Exception as err:  # pylint: disable=broad-except
        return dict(ok=False, err=type(err).__name__, errtext=str(err)[:200])
    finally:
        sys.argv, sys.stdout = old_argv, old_stdout
        _drop_pending_writes()


def _drop_pending_writes():
    """a failed gen_params leaves its temp file queued in vermouth's DeferredFileWriter singleton"""
    try:
        from vermouth.file_writer import DeferredFileWriter
        writer = DeferredFileWriter()
        for item in list(getattr(writer, "open_files", [])):
            try:
                os.close(item[0])
            except (OSError, TypeError, IndexError):
                pass
        if hasattr(writer, "open_files"):
            writer.open_files.clear()
    except Exception:  # pylint: disable=broad-except
        pass


def norm_ixn_atoms(sect, atoms):
    """orientation-free form of an interaction's atom list (the .itp writer sorts bonds/pairs and may
    reverse angles/dihedrals)"""
    atoms = list(atoms)
    if sect[:4] in ("bond", "pair") or sect in ("constraints", "exclusions"):
        return sorted(atoms)
    if sect.startswith("angle") or sect.startswith("dihedral") or sect == "impropers":
        return min(atoms, list(reversed(atoms)))
    return atoms


def itp_expectation(final, sect_arity):
    """what the written file must contain for a final molecule dump: atoms table rows and per-section
    multisets (1-based atoms, impropers written under [ dihedrals ])"""
    atoms = []
    for idx, (node, resid, cgrp, attrs) in enumerate(final["atoms"], start=1):
        a = dict(attrs)
        row = [str(idx), a.get("atype"), str(resid), a.get("resname"), a.get("atomname"), str(cgrp)]
        if "charge" in a:
            row.append(a["charge"])
        if "mass" in a:
            row.append(a["mass"])
        atoms.append(row)
    index = {node: i for i, (node, _, _, _) in enumerate(final["atoms"], start=1)}
    sections = {}
    for sect, ats, params, meta in final["ixns"]:
        name = "dihedrals" if sect == "impropers" else sect
        sections.setdefault(name, []).append([norm_ixn_atoms(name, [index[a] for a in ats]), list(params)])
    return atoms, {k: sorted(v) for k, v in sections.items()}


def itp_observation(parsed, sect_arity):
    sections = {}
    for sect, rows in parsed["sections"].items():
        if sect == "#":
            continue
        if sect not in sect_arity:
            # a section the generator never writes (only reachable when foreign definitions leak in): raw tokens
            sections[sect] = [[list(tokens), []] for tokens in rows]
            continue
        k = sect_arity.get(sect)
        for tokens in rows:
            n = len(tokens) if k is None else k
            sections.setdefault(sect, []).append([norm_ixn_atoms(sect, [int(t) for t in tokens[:n]]), tokens[n:]])
    return parsed["atoms"], {k: sorted(v) for k, v in sections.items()}
