"""C13 — generated topology is independent of labelling, ordering and run history.

Statement (properties.jsonl, fixed): "The result of gen_params depends only on the residue graph up to
relabelling of its nodes (residue ids fixed) and on the set of force-field definitions: node insertion
order, edge orientation, the order of definitions that do not define the same interaction, and earlier
runs in the same process change neither the atoms nor the multiset of interactions. Repeated runs give
identical files apart from the command-line header."

METAMORPHIC check on the real code: a generated input (force field files + residue graph + -mods, from
harness/ffgen_c01.py) is run through the real `gen_params` (files on disk, `.itp` written and read back) and
through the real processors on a hand-built `MetaMolecule`; then again under a random transformation that
the statement says must not matter:
  relabel     injective renaming of the node keys (other integers, a permutation of the same integers, strings)
  insertion   shuffled node insertion order (the `.json` reader re-sorts by key, so the MetaMolecule is
              also built directly in the shuffled order)
  edges       every edge reversed with probability 1/2, edge list shuffled
  definitions shuffled order of input files, of the definitions inside them and of their split over files
              (link definitions keep their relative order when two of them write the same interaction key
              with different parameters: those DO define the same interaction)
  history     preceded by 0-3 other gen_params calls (other random inputs, valid and invalid) in the process
  repeat      the same call twice: files identical apart from the header line
Outputs are compared after dropping the command-line header and the citation comment lines: atoms exactly,
interactions as multisets per section, `nrexcl`, and accept/reject.
The Lean model (Model/MapToMol.lean, tied to the code by C01's correspondence) is asked the same question
for every transformed input; its invariance is what the theorems of Properties/C13.lean prove.

links-relabel stream: force fields of the C02 generator (all order tokens, name choices, vetoes, dangling .itp
interactions) through the real MapToMolecule + ApplyLinks, on a residue graph and on its relabelled / re-inserted /
edge-reversed twin; order-dependent inputs (VF2 order among matches of one link, C02's filter) are skipped.

load_library streams (Model/LoadLibrary.lean; suffix -> parser tables and the file loop are translated from the
source, harness/tables/c13_library.py): `get_parser` exhaustively over file-name shapes x library/user x both
tables; `read_options_from_files` with recording stand-ins (which files, which parser, which order, IOError);
the real `load_ff_library` with DATA_PATH pointed at generated library directories (which definition of a name
the force field keeps; shuffled files / libraries must not matter when no two files define the same name).
"""
import json
import os
import pathlib
import random
import tempfile

import common
import ffgen_c01 as gen
import c01_real as real
import c01

PID = "C13"
RULE = ("inputs of the C01 generator (random force fields in .ff/.itp syntax x connected residue graphs, 3-12 "
        "residues, resid start 1/7/28/100, from_itp copies of a multi-residue block, -mods) x one random "
        "transformation each of {relabel, insertion, edges, definitions, history, repeat}; distinct = "
        "(input, transformation); non-trivial when the graph has >= 2 residues")
C13_FINDINGS = ("link-multiterm-file-order", "ff-itp-file-order")
KINDS = ["relabel", "insertion", "edges", "definitions", "history", "repeat"]
SECT_ARITY = dict(gen.SECTIONS, exclusions=None)


# ------------------------------------------------------------------------------------------------ observations

def observe_text(text):
    """canonical content of a written .itp without header / citation comments"""
    parsed = real.read_itp(text)
    atoms, sections = real.itp_observation(parsed, SECT_ARITY)
    return dict(ok=True, nrexcl=parsed["nrexcl"], atoms=atoms, sections=sections)


def observe_e2e(files, graph, mods, tmpdir=None):
    res = real.run_gen_params(files, graph, mods)
    if not res["ok"]:
        return dict(ok=False, err=res.get("err")), None
    return observe_text(res["text"]), res["text"]


def observe_stages(files, graph, mods):
    """atoms and per-section multisets of the molecule built by the real processors on a MetaMolecule whose
    nodes were inserted in exactly the given order"""
    out = real.run_stages(files, graph, mods)
    if not out["ok"]:
        return dict(ok=False, err=out.get("err"), stage=out["stage"]), out
    final = out["final"]
    want_atoms, want_sections = real.itp_expectation(final, SECT_ARITY)
    return dict(ok=True, nrexcl=final["nrexcl"], atoms=want_atoms, sections=want_sections), out


def same(a, b):
    if a["ok"] != b["ok"]:
        return False
    if not a["ok"]:
        return True
    return a["nrexcl"] == b["nrexcl"] and a["atoms"] == b["atoms"] and a["sections"] == b["sections"]


def describe_diff(a, b):
    if a["ok"] != b["ok"]:
        return "one run is accepted, the other rejected (%s / %s)" % (a.get("err", "ok"), b.get("err", "ok"))
    if a["nrexcl"] != b["nrexcl"]:
        return "nrexcl %s vs %s" % (a["nrexcl"], b["nrexcl"])
    for i, (x, y) in enumerate(zip(a["atoms"], b["atoms"])):
        if x != y:
            return "atom row %d: %s vs %s" % (i + 1, x, y)
    if len(a["atoms"]) != len(b["atoms"]):
        return "%d vs %d atoms" % (len(a["atoms"]), len(b["atoms"]))
    for sect in sorted(set(a["sections"]) | set(b["sections"])):
        if a["sections"].get(sect) != b["sections"].get(sect):
            return "section %s: %s vs %s" % (sect, str(a["sections"].get(sect))[:160], str(b["sections"].get(sect))[:160])
    return "?"


def strip_header(text):
    """drop the `; <command line>` line and the citation comments at the top of the file"""
    lines = text.splitlines()
    idx = 0
    while idx < len(lines) and (lines[idx].startswith(";") or not lines[idx].strip()):
        idx += 1
    return lines[idx:]


# ------------------------------------------------------------------------------------------------ transformations

def conflicting_links(out):
    """do two link applications write the same interaction key with different content?"""
    seen = {}
    for op in (out or {}).get("linkops") or []:
        if op["op"] != "insert":
            continue
        sect, atoms, params, meta = op["ixn"]
        key = (sect, tuple(atoms), dict(map(tuple, meta)).get("version", "1"))
        val = (tuple(params), tuple(map(tuple, meta)))
        if key in seen and seen[key] != val:
            return True
        seen[key] = val
    return False


def multi_runs(graph):
    nodes = sorted(graph["nodes"], key=lambda n: n[1])
    runs, inside = 0, False
    for node in nodes:
        if node[3] and not inside:
            runs += 1
        inside = bool(node[3])
    return runs


def _ff_after_itp(variant):
    exts = [e for e, _ in (variant or {}).get("files", [])]
    return "itp" in exts and "ff" in exts[exts.index("itp"):]


def t_relabel(rng, case, findings):
    graph = case["graph"]
    keys = [n[0] for n in graph["nodes"]]
    mode = rng.choice(["ints", "perm", "strings", "shift"])
    if mode == "perm" and all(isinstance(k, int) for k in keys):
        new = list(keys)
        rng.shuffle(new)
    elif mode == "ints":
        new = rng.sample(range(0, 1000), len(keys))
    elif mode == "shift":
        base = rng.choice([0, 1, 17, 500])
        order = sorted(range(len(keys)), key=lambda i: (str(type(keys[i])), keys[i]))
        new = [None] * len(keys)
        for rank, i in enumerate(order):
            new[i] = base + 3 * rank
    else:
        new = ["k%04d" % v for v in rng.sample(range(0, 5000), len(keys))]
    ren = dict(zip([json.dumps(k) for k in keys], new))
    g2 = dict(graph, nodes=[[ren[json.dumps(k)], r, rn, fi] for k, r, rn, fi in graph["nodes"]],
              edges=[[ren[json.dumps(e[0])], ren[json.dumps(e[1])]] + list(e[2:]) for e in graph["edges"]])
    return dict(case, graph=g2), "relabel:" + mode


def t_insertion(rng, case, findings):
    graph = case["graph"]
    nodes = list(graph["nodes"])
    rng.shuffle(nodes)
    return dict(case, graph=dict(graph, nodes=nodes)), "insertion"


def t_edges(rng, case, findings):
    graph = case["graph"]
    edges = [([e[1], e[0]] if rng.random() < 0.5 else [e[0], e[1]]) + list(e[2:]) for e in graph["edges"]]
    rng.shuffle(edges)
    return dict(case, graph=dict(graph, edges=edges)), "edges"


def t_definitions(rng, case, findings, keep_link_order=False):
    by_ext = {}
    for ext, chunks in case["files"]:
        by_ext.setdefault(ext, []).extend(chunks)
    files = []
    for ext, chunks in by_ext.items():
        chunks = list(chunks)
        if keep_link_order:
            # shuffle everything except the relative order of link-producing definitions
            linkish = [c for c in chunks if c.startswith("[ link ]") or ext == "itp"]
            others = [c for c in chunks if c not in linkish]
            rng.shuffle(others)
            merged, li, oi = [], 0, 0
            while li < len(linkish) or oi < len(others):
                if oi >= len(others) or (li < len(linkish) and rng.random() < 0.5):
                    merged.append(linkish[li]); li += 1
                else:
                    merged.append(others[oi]); oi += 1
            chunks = merged
        else:
            rng.shuffle(chunks)
        if len(chunks) > 1 and rng.random() < 0.5:
            cut = rng.randint(1, len(chunks) - 1)
            files += [(ext, chunks[:cut]), (ext, chunks[cut:])]
        else:
            files.append((ext, chunks))
    if not keep_link_order:
        rng.shuffle(files)
    if "ff-itp-file-order" not in findings and "link-multiterm-file-order" not in findings:
        # reading a polyply .itp re-finalises everything read before it (known finding ff-itp-file-order):
        # keep every .ff file before every .itp file, as the base input has them
        files = [f for f in files if f[0] == "ff"] + [f for f in files if f[0] != "ff"]
    else:
        # the finding stream: read the .itp files first
        files = [f for f in files if f[0] != "ff"] + [f for f in files if f[0] == "ff"]
    return dict(case, files=files), "definitions" + (":links-kept" if keep_link_order else "")


# ------------------------------------------------------------------------------------------------ one case

def model_requests(case, out):
    """the model's answer for an input (same layout as C01's `run` request)"""
    return c01.requests_of(case, out)[0]


def model_obs(answer):
    """atoms + per-section multisets of the model's final molecule"""
    if not answer["map"]["ok"] or not answer["final"]["ok"]:
        return dict(ok=False)
    final = dict(atoms=answer["final"]["atoms"], ixns=answer["final"]["ixns"], nrexcl=answer["map"]["nrexcl"])
    try:
        atoms, sections = real.itp_expectation(final, SECT_ARITY)
    except (KeyError, IndexError) as err:
        # the link operations recorded from the real run do not fit the molecule the model built from the files (an
        # interaction on an atom the model does not have): model and code no longer talk about the same input
        return dict(ok=False, inconsistent="%s: %s" % (type(err).__name__, err))
    return dict(ok=True, nrexcl=final["nrexcl"], atoms=atoms, sections=sections)


def run_one(ctx, rng, case, kind, findings, pending):
    """execute base and transformed input on the real code; queue the model requests"""
    replay = dict(kind=kind, case=c01.case_replay(case))
    base_e2e, base_text = observe_e2e(case["files"], case["graph"], case["mods"])
    base_st, base_out = observe_stages(case["files"], case["graph"], case["mods"])
    record = dict(case=case, kind=kind, replay=replay, base_e2e=base_e2e, base_st=base_st, checks=[], label=kind)
    if base_out["stage"] == "load":
        record["skip"] = "parser-failed"
        pending.append(record)
        return
    # gen_params is the composition of its processors on a force field loaded for this call: whatever it keeps
    # from earlier calls (cached force field, shared lists) shows as a difference to the freshly loaded stages
    record["checks"].append(("gen_params vs its processors on a freshly loaded force field", base_st, base_e2e))
    if kind in ("relabel", "insertion", "edges", "definitions"):
        if kind == "relabel":
            variant, label = t_relabel(rng, case, findings)
        elif kind == "insertion":
            variant, label = t_insertion(rng, case, findings)
        elif kind == "edges":
            variant, label = t_edges(rng, case, findings)
        elif conflicting_links(base_out) and set(findings) & {"ff-itp-file-order", "link-multiterm-file-order"}:
            # moving files also moves link definitions that DO define the same interaction: not this finding
            variant, label = t_edges(rng, case, findings)
        else:
            variant, label = t_definitions(rng, case, findings, keep_link_order=conflicting_links(base_out))
        record["label"] = label
        replay["variant"] = c01.case_replay(variant)
        var_e2e, _ = observe_e2e(variant["files"], variant["graph"], variant["mods"])
        var_st, var_out = observe_stages(variant["files"], variant["graph"], variant["mods"])
        record["checks"].append(("gen_params", base_e2e, var_e2e))
        record["checks"].append(("processors", base_st, var_st))
        record["variant"] = variant
        if "atom-removed-by-link" not in c01.features(case):
            # (after an atom removal the residues are renumbered: known C01 finding, not modelled)
            record["model"] = [model_requests(case, base_out), model_requests(variant, var_out)]
    elif kind == "history":
        # 0-3 other calls first, all in one temp directory so that nothing they queued is lost
        others = [c01.make_case(rng, findings=rng.choice([(), ("resid-start-0",), ("dup-key-in-block",)]))
                  for _ in range(rng.randint(1, 3))]
        for other in others:
            real.run_gen_params(other["files"], other["graph"], other["mods"], name="other")
            observe_stages(other["files"], other["graph"], other["mods"])
        mode = rng.choice(["plain", "shared-inpath", "same-paths"])
        if mode == "same-paths":
            # edit-and-rerun: an earlier call read OTHER content from the very same paths (force-field files and
            # sequence file), then the files are rewritten and the call under test runs
            with tempfile.TemporaryDirectory() as tmpdir:
                for other in others:
                    real.run_gen_params_in_dir(tmpdir, other["files"], other["graph"], other["mods"])
                # same file layout, other content: the case's own files with the definitions of another case
                decoy = c01.make_case(rng)
                decoy_files = [(ext, [c for e2, ch in decoy["files"] if e2 == ext for c in ch] or chunks)
                               for ext, chunks in case["files"]]
                real.run_gen_params_in_dir(tmpdir, decoy_files, decoy["graph"], decoy["mods"])
                res = real.run_gen_params_in_dir(tmpdir, case["files"], case["graph"], case["mods"])
            again_e2e = observe_text(res["text"]) if res["ok"] else dict(ok=False, err=res.get("err"))
            again_text = res.get("text")
            record["label"] = "history:same-paths"
        elif mode == "shared-inpath":
            # a caller that keeps ONE list of input files and asks for a library in an earlier call only
            with tempfile.TemporaryDirectory() as tmpdir:
                shared = real.write_files(case["files"], tmpdir)
                lib = rng.choice([["martini3"], ["martini2"], ["martini3", "martini2"]])
                real.run_gen_params(case["files"], case["graph"], case["mods"], name="withlib", lib=lib, shared=shared)
                res = real.run_gen_params(case["files"], case["graph"], case["mods"], shared=shared)
            again_e2e = observe_text(res["text"]) if res["ok"] else dict(ok=False, err=res.get("err"))
            again_text = res.get("text")
            record["label"] = "history:shared-inpath"
        else:
            again_e2e, again_text = observe_e2e(case["files"], case["graph"], case["mods"])
            record["label"] = "history:%d" % len(others)
        again_st, _ = observe_stages(case["files"], case["graph"], case["mods"])
        replay["others"] = [c01.case_replay(o) for o in others]
        record["checks"].append(("gen_params", base_e2e, again_e2e))
        record["checks"].append(("processors", base_st, again_st))
        if base_text is not None and again_text is not None:
            record["text_pair"] = (strip_header(base_text), strip_header(again_text))
    else:
        again_e2e, again_text = observe_e2e(case["files"], case["graph"], case["mods"])
        record["checks"].append(("gen_params", base_e2e, again_e2e))
        if base_text is not None and again_text is not None:
            record["text_pair"] = (strip_header(base_text), strip_header(again_text))
    pending.append(record)


def judge(ctx, record, answers):
    case, kind, replay = record["case"], record["kind"], record["replay"]
    if record.get("skip"):
        ctx.tally(parser_failed=True)
        ctx.case(None, kind=kind, outcome="parser-failed")
        return
    feats = c01.features(case) + (c01.features(record["variant"]) if record.get("variant") else [])
    verdict = "same"
    for path, base, var in record["checks"]:
        if not same(base, var):
            verdict = "differs"
            known = [f for f in feats if f in C13_FINDINGS]
            if path.startswith("gen_params vs"):
                # (the .json reader re-orders the nodes by key: without a history this is an insertion-order effect)
                ctx.oracle_fail(known[0] if known else ("history-changes-output" if kind in ("history", "repeat")
                                                       else "insertion-changes-output"),
                                "%s: %s" % (path, describe_diff(base, var)), replay)
                continue
            if not known and kind == "definitions" and _ff_after_itp(record.get("variant")):
                known = ["ff-itp-file-order"]
            shape = known[0] if known else "%s-changes-output" % kind
            ctx.oracle_fail(shape, "%s (%s) changes the result of %s: %s"
                            % (record["label"], kind, path, describe_diff(base, var)), replay)
    if record.get("text_pair") is not None:
        a, b = record["text_pair"]
        if a != b:
            verdict = "differs"
            first = next((i for i, (x, y) in enumerate(zip(a, b)) if x != y), min(len(a), len(b)))
            ctx.oracle_fail("repeat-differs", "the same gen_params call run again (%s) writes a different file below the "
                            "header: line %d %r vs %r" % (record["label"], first, a[first:first + 1], b[first:first + 1]), replay)
    if answers and "link-multiterm-file-order" not in feats:
        base_m, var_m = model_obs(answers[0]), model_obs(answers[1])
        # the model is (in)variant exactly where the code is: invariant on the whole default stream
        ctx.correspond("model-invariance:" + kind, same(base_m, var_m), same(record["checks"][2][1], record["checks"][2][2]), replay)
        # the model answers what the code answers (C01's tie, re-checked on the transformed input)
        ctx.correspond("model-vs-code:" + kind, dict(ok=record["checks"][2][2]["ok"], atoms=record["checks"][2][2].get("atoms"),
                                                   sections=record["checks"][2][2].get("sections")),
                       dict(ok=var_m["ok"], atoms=var_m.get("atoms"), sections=var_m.get("sections")), replay)
        ctx.traces += 1
    graph = case["graph"]
    n = len(graph["nodes"])
    key = None
    if n >= 2:
        key = json.dumps([record["label"], [[e, c] for e, c in case["files"]], graph["nodes"], graph["edges"], case["mods"],
                          replay.get("variant", {}).get("graph"), replay.get("variant", {}).get("files")], sort_keys=True, default=str)
    ctx.case(key, sample=dict(kind=record["label"], nodes=graph["nodes"][:5], accepted=record["base_e2e"]["ok"], verdict=verdict),
             kind=kind, transform=record["label"].split(":")[0] + (":" + record["label"].split(":")[1] if ":" in record["label"] and kind == "relabel" else ""),
             shape=graph.get("shape"), keys=graph.get("keys"), multires=("yes" if graph.get("run_residues") else "no"),
             has_mods=bool(case["ff"]["mods"]), accepted=record["base_e2e"]["ok"], verdict=verdict)


def run_batch(ctx, specs, findings):
    """specs: [(case, kind, seed)]"""
    pending = []
    for case, kind, seed in specs:
        run_one(ctx, random.Random(seed), case, kind, findings, pending)
    reqs = []
    for record in pending:
        reqs += record.get("model", [])
    answers = ctx.driver.ask(reqs)
    pos = 0
    for record in pending:
        k = len(record.get("model", []))
        judge(ctx, record, answers[pos:pos + k])
        pos += k


# ------------------------------------------------------------------------------------------------ load_library

LIB_NAMES = ["a.rtp", "a.ff", "a.itp", "a.bib", "a.bld", "a.txt", "a", "a.FF", "a.ff.bak", "a.gro", "a.itp.ff", ".ff",
             "a.", "b.bld.ff", "README"]


DOCUMENTED_PARSERS = dict(ff=dict(rtp="read_rtp", ff="read_ff", itp="read_polyply", bib="read_bib"), bld=dict(bld="read_build_file"))


def _choice_of_real(path, table, is_lib):
    from polyply.src import load_library
    try:
        parser = load_library.get_parser(path, table, is_lib)
    except IOError:
        return "IOError"
    return dict(parser=parser.__name__) if parser else "skip"


def _choice_of_model(ans):
    choice = ans.get("choice")
    return "skip" if choice in ("skip", "skip-warn") else choice      # a warning is a log line: not pinned


def run_library_get_parser(ctx):
    """EXHAUSTIVE: `get_parser` on every file-name shape x library/user x both parser tables"""
    from polyply.src import load_library
    tables = dict(ff=load_library.FORCE_FIELD_PARSERS, bld=load_library.BUILD_FILE_PARSERS)
    combos = [(tname, name, is_lib) for tname in tables for name in LIB_NAMES for is_lib in (False, True)]
    reqs, impl = [], []
    for tname, name, is_lib in combos:
        path = pathlib.Path("/nowhere") / name
        reqs.append(dict(op="getparser", table=tname, ext=path.suffix[1:], islib=is_lib))
        impl.append(_choice_of_real(path, tables[tname], is_lib))
        # oracle, written down independently of the source: the documented file formats and the documented treatment
        # of files nobody can read (user file: IOError; library file: skipped)
        known = DOCUMENTED_PARSERS[tname].get(path.suffix[1:])
        want = dict(parser=known) if known else ("skip" if is_lib else "IOError")
        if impl[-1] != want and not any(f["shape"] == "wrong-parser-for-suffix" for f in ctx.failures):
            ctx.oracle_fail("wrong-parser-for-suffix", "get_parser(%s, %s parsers, is_lib_file=%s) gives %s, expected %s"
                            % (name, tname, is_lib, impl[-1], want), dict(kind="library", stream="get_parser", name=name, table=tname, is_lib=is_lib))
    answers = ctx.driver.ask(reqs)
    model = [_choice_of_model(a) for a in answers]
    bad = [(c, i, m) for c, i, m in zip(combos, impl, model) if i != m][:5]
    ctx.correspond("library:get_parser", impl, model, dict(kind="library", stream="get_parser", first_differences=bad))
    ctx.tally(get_parser_exhaustive=len(combos))
    ctx.case("library:get_parser", kind="library")


def _files_json(paths):
    return [dict(path=str(p), suffix=p.suffix) for p in paths]


def run_library_read_options(ctx, count):
    """`read_options_from_files` with recording stand-ins for the parsers (same keys as the real tables): which
    files are parsed, by which parser, in which order; IOError for a user file without parser"""
    from polyply.src import load_library
    rng = ctx.rng
    tables = dict(ff=load_library.FORCE_FIELD_PARSERS, bld=load_library.BUILD_FILE_PARSERS)
    reqs, todo = [], []
    with tempfile.TemporaryDirectory() as tmp:
        root = pathlib.Path(tmp)
        (root / "lib").mkdir()
        (root / "user").mkdir()
        pool = {}
        for group in ("lib", "user"):
            pool[group] = []
            for idx, name in enumerate(LIB_NAMES):
                path = root / group / ("%d%s" % (idx, name) if not name.startswith(".") else name)
                path.write_text("; %s\n" % path)
                pool[group].append(path)
        for idx in range(count):
            tname = "ff" if idx % 4 else "bld"
            readable = [p for p in pool["user"] if p.suffix[1:] in tables[tname]]
            lib = rng.sample(pool["lib"], rng.randint(0, 5))
            user = rng.sample(readable, rng.randint(0, min(3, len(readable))))
            roll = rng.random()
            if roll < 0.25:
                user.insert(rng.randint(0, len(user)), rng.choice([p for p in pool["user"] if p not in readable]))
            elif roll < 0.35 and lib:
                user.append(rng.choice(lib))       # a path given twice: `path in lib_files` makes it a library file
            seen = []

            def recorder(name):
                def parse(lines, storage, _name=name):
                    # every generated file starts with a comment line holding its own path
                    seen.append([_name, "".join(lines).splitlines()[0][2:]])
                return parse
            stand_ins = {ext: recorder(func.__name__) for ext, func in tables[tname].items()}
            try:
                load_library.read_options_from_files([list(lib), list(user)], object(), stand_ins)
                impl = dict(status="ok", calls=seen)
            except IOError:
                impl = dict(status="IOError")
            replay = dict(kind="library", stream="read_options", table=tname, lib=[p.name for p in lib], user=[p.name for p in user])
            reqs.append(dict(op="readoptions", table=tname, lib=_files_json(lib), user=_files_json(user)))
            todo.append((impl, replay, len(lib), len(user)))
        answers = ctx.driver.ask(reqs) if reqs else []
    for (impl, replay, nlib, nuser), ans in zip(todo, answers):
        model = dict(status=ans.get("status"), calls=ans.get("calls")) if ans.get("status") == "ok" else dict(status=ans.get("status"))
        ctx.correspond("library:read_options", impl, model, replay)
        ctx.traces += 1
        ctx.case(("library:read_options", json.dumps(replay, sort_keys=True)) if nlib + nuser >= 2 else None, kind="library",
                 library_status=impl["status"])


def _ff_text(blocks):
    """blocks: [(name, tag)] -> .ff text; the tag is the atom type of the single atom (tells definitions apart)"""
    out = []
    for name, tag in blocks:
        out += ["[ moleculetype ]", "%s 1" % name, "[ atoms ]", "1 %s 1 %s BB 1 0.0 45.0" % (tag, name)]
    return "\n".join(out) + "\n"


def run_library_load_ff(ctx, count):
    """the real `load_ff_library` with the real parsers on generated library directories (DATA_PATH is pointed at
    a temporary directory inside this process) and extra files: which definition of a block name the force
    field keeps (reading order: user files, then libraries in the given order), and — the statement of C13 —
    that shuffling the extra files / the libraries changes nothing when no two files define the same name"""
    from polyply.src import load_library
    rng = ctx.rng
    all_block_names = ["PEO", "PS", "PMA", "P3HT", "PVA", "PE"]
    reqs, todo = [], []
    saved = load_library.DATA_PATH
    try:
        for idx in range(count):
            with tempfile.TemporaryDirectory() as tmp:
                root = pathlib.Path(tmp)
                load_library.DATA_PATH = str(root)
                clash = idx % 3 == 0
                names = list(all_block_names)
                free = list(names)
                rng.shuffle(free)
                tagno = [0]

                def blocks_for(k):
                    out = []
                    for _ in range(k):
                        name = rng.choice(names) if clash else (free.pop() if free else None)
                        if name is None or name in [n for n, _t in out]:
                            continue
                        tagno[0] += 1
                        out.append((name, "T%d" % tagno[0]))
                    return out
                defs, libnames, extra = {}, [], []
                if clash:
                    names = names[:2]           # few names: the same block in several libraries / extra files
                for lib in rng.sample(["libA", "libB", "libC"], rng.randint(2, 3) if clash else rng.randint(0, 2)):
                    (root / lib).mkdir()
                    libnames.append(lib)
                    taken = set()
                    for fname in rng.sample(["x.ff", "y.ff", "w.itp", "notes.txt", "z.bld", "README"], rng.randint(1, 4)):
                        path = root / lib / fname
                        # (a one-atom block reads the same in .ff and in polyply .itp syntax: every suffix with definitions)
                        blocks = [b for b in blocks_for(rng.randint(1, 2)) if b[0] not in taken] if fname.endswith((".ff", ".itp")) else []
                        taken |= {b[0] for b in blocks}       # one name once per library: listing order is the OS's
                        path.write_text(_ff_text(blocks) if blocks else "; nothing\n")
                        defs[str(path)] = blocks
                (root / "user").mkdir()
                for fname in rng.sample(["u1.ff", "u2.ff", "u3.itp"], rng.randint(0, 3)):
                    path = root / "user" / fname
                    blocks = blocks_for(rng.randint(1, 2))
                    path.write_text(_ff_text(blocks) if blocks else "; nothing\n")
                    defs[str(path)] = blocks
                    extra.append(path)
                listing = {lib: _files_json([root / lib / f for f in os.listdir(root / lib)]) for lib in libnames}

                def observe(libs, files):
                    try:
                        force_field = load_library.load_ff_library("verif", list(libs), list(files))
                    except IOError:
                        return dict(status="IOError")
                    return dict(status="ok", winners=sorted([name, str(block.nodes[list(block.nodes)[0]]["atype"])] for name, block in force_field.blocks.items()))
                impl = observe(libnames, extra)
                shuffled_extra, shuffled_libs = list(extra), list(libnames)
                rng.shuffle(shuffled_extra)
                rng.shuffle(shuffled_libs)
                variant = observe(shuffled_libs, shuffled_extra)
                tag_to_path = {tag: path for path, blocks in defs.items() for _n, tag in blocks}
                replay = dict(kind="library", stream="load_ff", libnames=libnames, extra=[p.name for p in extra],
                              defs={pathlib.Path(k).parent.name + "/" + pathlib.Path(k).name: v for k, v in defs.items()})
                all_names = [n for blocks in defs.values() for n, _t in blocks]
                if len(set(all_names)) == len(all_names) and impl != variant:
                    ctx.oracle_fail("file-order-changes-definitions", "no two input files define the same block, yet reading the "
                                    "extra files as %s / libraries as %s instead of %s / %s changes the force field: %s vs %s"
                                    % ([p.name for p in shuffled_extra], shuffled_libs, [p.name for p in extra], libnames,
                                       impl, variant), replay)
                reqs.append(dict(op="loadff", libnames=libnames, listing=listing, extra=_files_json(extra),
                                 defs={path: [n for n, _t in blocks] for path, blocks in defs.items()}))
                if impl["status"] == "ok":
                    impl = dict(status="ok", winners=sorted([name, tag_to_path.get(tag, "?")] for name, tag in impl["winners"]))
                todo.append((impl, replay, len(all_names)))
    finally:
        load_library.DATA_PATH = saved
    answers = ctx.driver.ask(reqs) if reqs else []
    for (impl, replay, ndefs), ans in zip(todo, answers):
        model = dict(status=ans.get("status"), winners=sorted(ans.get("winners", []))) if ans.get("status") == "ok" else dict(status=ans.get("status"))
        ctx.correspond("library:load_ff", impl, model, replay)
        ctx.traces += 1
        ctx.case(("library:load_ff", json.dumps(replay, sort_keys=True)) if ndefs >= 2 else None, kind="library",
                 library_status=impl["status"])


def run_library_processes(ctx):
    """"Repeated runs give identical files": the same `load_ff_library` call (three libraries that all define one
    block, in the order given) in FRESH interpreter processes with different string-hash seeds — the definition the
    force field keeps must not depend on the process (and is the one of the library named last)"""
    import subprocess
    import sys
    script = (
        "import sys, logging\n"
        "sys.path.insert(0, sys.argv[1])\n"
        "logging.disable(logging.CRITICAL)\n"
        "from polyply.src import load_library\n"
        "load_library.DATA_PATH = sys.argv[2]\n"
        "ff = load_library.load_ff_library('verif', sys.argv[3:], [])\n"
        "print('WINNERS', sorted((n, str(b.nodes[list(b.nodes)[0]]['atype'])) for n, b in ff.blocks.items()))\n")
    libs = ["mylib", "extra", "zz_overrides"]
    with tempfile.TemporaryDirectory() as tmp:
        root = pathlib.Path(tmp)
        for idx, lib in enumerate(libs):
            (root / lib).mkdir()
            (root / lib / "blocks.ff").write_text(_ff_text([("PEO", "T%d" % idx), ("ONLY%d" % idx, "U%d" % idx)]))
        (root / "probe.py").write_text(script)
        results = {}
        for hashseed in ("0", "1", "2", "3"):
            env = dict(os.environ, PYTHONHASHSEED=hashseed)
            proc = subprocess.run([sys.executable, str(root / "probe.py"), common.REPO, str(root)] + libs, env=env,
                                  stdout=subprocess.PIPE, stderr=subprocess.STDOUT, text=True, timeout=120)
            line = next((l for l in proc.stdout.splitlines() if l.startswith("WINNERS")), "FAILED: " + proc.stdout[-300:])
            results[hashseed] = line
    replay = dict(kind="library", stream="processes", libs=libs)
    distinct = sorted(set(results.values()))
    want = "('PEO', 'T%d')" % (len(libs) - 1)
    if len(distinct) > 1:
        ctx.oracle_fail("library-order-depends-on-process", "load_ff_library(libs=%s) in fresh processes with PYTHONHASHSEED 0..3 keeps "
                        "different definitions of the block all three libraries define: %s" % (libs, results), replay)
    elif want not in distinct[0]:
        ctx.oracle_fail("library-order-depends-on-process", "load_ff_library(libs=%s): the block all three libraries define is not the one "
                        "of the library named last: %s" % (libs, distinct[0]), replay)
    ctx.case("library:processes", kind="library")


def run_library(ctx):
    run_library_get_parser(ctx)
    run_library_read_options(ctx, ctx.budget(80, 1500))
    run_library_load_ff(ctx, ctx.budget(40, 600))
    run_library_processes(ctx)


# ------------------------------------------------------------------------------------------------ links under relabelling

def _transform_link_case(rng, case):
    """same residue graph under an injective renaming of the node keys, shuffled node insertion order, shuffled
    and randomly reversed edges (residue ids, residue names, edge labels fixed)"""
    import copy
    graph = case["graph"]
    keys = [k for k, _r, _n in graph["nodes"]]
    style = rng.choice(["perm", "offset", "perm"])
    if style == "perm":
        new = list(keys)
        rng.shuffle(new)
        ren = dict(zip(keys, new))
    else:
        off = rng.choice([17, 100])
        ren = {k: 3 * k + off for k in keys}
    nodes = [[ren[k], r, n] for k, r, n in graph["nodes"]]
    rng.shuffle(nodes)
    edges = [[ren[u], ren[v], lt] if rng.random() < 0.5 else [ren[v], ren[u], lt] for u, v, lt in graph["edges"]]
    rng.shuffle(edges)
    variant = copy.deepcopy(case)
    variant["graph"] = dict(graph, nodes=nodes, edges=edges)
    if "from_itp" in graph:
        variant["graph"]["from_itp"] = {str(ren[int(k)]): v for k, v in graph["from_itp"].items()}
    return variant


def run_links_relabel(ctx, count):
    """C13 on force fields with every kind of link the C02 generator writes (orders `*`, `>`, `<`, numbers; name
    choices; replace; edges / non-edges / patterns; dangling .itp interactions): the real MapToMolecule + ApplyLinks
    on a residue graph and on the same graph with renamed node keys, other insertion order and reversed edges must
    give the same atoms, edges and interactions.  Inputs whose result depends on the order in which VF2 enumerates the
    matches of ONE link (C02: `sameLinkCollisions`) are skipped and counted."""
    import ffgen_c02 as G
    import c02
    rng = ctx.rng
    reqs, todo = [], []
    pairs = []
    for _ in range(count):
        case = G.gen_case(rng, max_res=ctx.budget(6, 9))
        pairs.append((case, _transform_link_case(rng, case)))
    # "the order of definitions that do not define the same interaction": links that differ only in the `linktype`
    # of their residue edge (alpha1->6 vs alpha1->3 connections) write bonds between different residue pairs; the
    # twin is the same force field with the link definitions reversed (and the graph relabelled)
    for _ in range(ctx.budget(20, 200)):
        nres = rng.randint(3, 6)
        labels = ["a", "b", None]
        block = dict(name="A", nrexcl=1, syntax="ff", atoms=[dict(name="BB", atype="P1", cg=1), dict(name="SC1", atype="P2", cg=1)],
                     ixns=[["bonds", [0, 1], ["1", "0.3", "100"], {}]])
        nodes = [[i, i + 1, "A"] for i in range(nres)]
        edges = [[rng.randrange(i), i, rng.choice(labels)] for i in range(1, nres)]
        links = []
        for idx, label in enumerate(labels):
            edge = [["BB", ">BB", label]] if label is not None else []
            links.append(dict(atoms=[["BB", {"resname": "A"}], [">BB", {"resname": "A"}]],
                              ixns=[["bonds", ["BB", ">BB"], ["1", "0.%d" % (4 + idx), str(200 + idx)], {}]],
                              edges=edge, nonedges=[], patterns=[]))
        rng.shuffle(links)
        case = dict(blocks=[block], links=links, graph=dict(nodes=nodes, edges=edges))
        variant = _transform_link_case(rng, case)
        variant["links"] = list(reversed(variant["links"]))
        pairs.append((case, variant))
    # a link that only RELABELS a residue type (`replace: {resname: …}` on every atom of the residue) next to links
    # that bond residues of the old name: they define different things, so their order in the file must not matter
    for _ in range(ctx.budget(20, 200)):
        nres = rng.randint(2, 6)
        beads = rng.choice([1, 1, 2])
        atoms_a = [dict(name="BB", atype="P1", cg=1)] + ([dict(name="SC1", atype="P2", cg=1)] if beads == 2 else [])
        block_a = dict(name="A", nrexcl=1, syntax="ff", atoms=atoms_a,
                       ixns=([["bonds", [0, 1], ["1", "0.3", "100"], {}]] if beads == 2 else []))
        block_b = dict(name="B", nrexcl=1, syntax="ff", atoms=[dict(name="BB", atype="Q1", cg=1)], ixns=[])
        nodes = [[i, i + 1, rng.choice(["A", "A", "B"])] for i in range(nres)]
        edges = [[rng.randrange(i), i, None] for i in range(1, nres)]
        relabel = dict(atoms=[[a["name"], {"resname": "A", "replace": {"resname": "AX"}}] for a in atoms_a],
                       ixns=[], edges=[], nonedges=[], patterns=[])
        bond_aa = dict(atoms=[["BB", {"resname": "A"}], [">BB", {"resname": "A"}]],
                       ixns=[["bonds", ["BB", ">BB"], ["1", "0.41", "201"], {}]], edges=[], nonedges=[], patterns=[])
        bond_ab = dict(atoms=[["BB", {"resname": "A|B"}], [">BB", {"resname": "B"}]],
                       ixns=[["bonds", ["BB", ">BB"], ["1", "0.42", "202"], {}]], edges=[], nonedges=[], patterns=[])
        bond_ba = dict(atoms=[["BB", {"resname": "B"}], [">BB", {"resname": "A"}]],
                       ixns=[["bonds", ["BB", ">BB"], ["1", "0.43", "203"], {}]], edges=[], nonedges=[], patterns=[])
        links = [relabel, bond_aa, bond_ab, bond_ba]
        rng.shuffle(links)
        case = dict(blocks=[block_a, block_b], links=links, graph=dict(nodes=nodes, edges=edges))
        variant = _transform_link_case(rng, case)
        variant["links"] = list(reversed(variant["links"]))
        pairs.append((case, variant))
    # branched links whose side chains carry orders of the same direction (`>` and `>>`, `<` and `<<`): which side chain
    # is which is fixed by the resids, whatever order the matcher proposes the residues in
    for _ in range(ctx.budget(20, 200)):
        nres = rng.randint(3, 7)
        up = rng.random() < 0.6
        marks = [">", ">>"] if up else ["<", "<<"]
        block = dict(name="A", nrexcl=1, syntax="ff", atoms=[dict(name="BB", atype="P1", cg=1)], ixns=[])
        resids = list(range(1, nres + 1))
        rng.shuffle(resids)
        nodes = [[i, resids[i], "A"] for i in range(nres)]
        edges = [[rng.randrange(i), i, None] for i in range(1, nres)]
        link = dict(atoms=[["BB", {"resname": "A"}], [marks[0] + "BB", {"resname": "A"}], [marks[1] + "BB", {"resname": "A"}]],
                    ixns=[["bonds", ["BB", marks[0] + "BB"], ["1", "0.41", "410"], {}],
                          ["bonds", ["BB", marks[1] + "BB"], ["1", "0.42", "420"], {}]],
                    edges=[], nonedges=[], patterns=[])
        case = dict(blocks=[block], links=[link], graph=dict(nodes=nodes, edges=edges))
        pairs.append((case, _transform_link_case(rng, case)))
    # the directives of a monomer .itp in another order ([ bonds ] / [ constraints ] / [ angles ] …): the block and the
    # links its dangling interactions stand for are the same definitions.  Random cases get their .itp blocks
    # re-ordered in the twin; plus Martini-style backbones whose connection to the next residue is written twice, as a
    # bond AND as a constraint on the same atoms, next to a .ff link that re-defines the bond
    for case, variant in pairs:
        for block in variant["blocks"]:
            if block.get("syntax") == "itp":
                sections = list(dict.fromkeys(item[0] for item in block["ixns"]))
                rng.shuffle(sections)
                block["section_order"] = sections
    for _ in range(ctx.budget(20, 200)):
        natoms = rng.choice([1, 2, 2, 3])
        names = ["p%d" % (i + 1) for i in range(natoms)]
        ixns = [["bonds", [i, i + 1], ["1", "0.30", "3000"], {}] for i in range(natoms - 1)]
        last = natoms - 1
        ixns.append(["bonds", [last, natoms], ["1", "0.35", "3500"], {}])
        ixns.append(["constraints", [last, natoms], ["1", "0.35"], {}])
        if natoms >= 2 and rng.random() < 0.7:
            ixns.append(["angles", [last - 1, last, natoms], ["1", "120", "50"], {}])
        if rng.random() < 0.4:
            ixns.append(["pairs", [last, natoms], ["1"], {}])
        order = list(dict.fromkeys(item[0] for item in ixns))
        rng.shuffle(order)
        block = dict(name="P", nrexcl=1, syntax="itp", atoms=[dict(name=n, atype="TA", cg=1) for n in names], ixns=ixns,
                     section_order=order)
        link = dict(atoms=[[names[last], {"resname": "P"}], ["+" + names[0], {"resname": "P"}]],
                    ixns=[[rng.choice(["bonds", "constraints"]), [names[last], "+" + names[0]], ["1", "0.37"], {}]],
                    edges=[], nonedges=[], patterns=[])
        if link["ixns"][0][0] == "bonds":
            link["ixns"][0][2].append("3700")
        nres = rng.randint(2, 5)
        case = dict(blocks=[block], links=[link] if rng.random() < 0.8 else [],
                    graph=dict(nodes=[[i, i + 1, "P"] for i in range(nres)], edges=[[i, i + 1, None] for i in range(nres - 1)]))
        variant = _transform_link_case(rng, case)
        other = list(order)
        while other == order and len(order) > 1:
            rng.shuffle(other)
        variant["blocks"][0]["section_order"] = other
        pairs.append((case, variant))
    for case, variant in pairs:
        try:
            inp_a, out_a, _ = c02.run_real(case)
            inp_b, out_b, _ = c02.run_real(variant)
        except G.Unsupported:
            continue
        except Exception as err:  # pylint: disable=broad-except
            ctx.tally(links_relabel_real_code_raised=type(err).__name__)        # C02 reports a pipeline that raises
            continue
        reqs += [dict(op="apply", input=inp_a), dict(op="apply", input=inp_b)]
        todo.append((case, variant, out_a, out_b))
    answers = ctx.driver.ask(reqs) if reqs else []
    for idx, (case, variant, out_a, out_b) in enumerate(todo):
        ans_a, ans_b = answers[2 * idx], answers[2 * idx + 1]
        if not ans_a.get("ok") or not ans_b.get("ok") or ans_a.get("collisions") or ans_b.get("collisions"):
            ctx.tally(order_dependent_cases_skipped=True)
            ctx.case(None, kind="links-relabel")
            continue
        replay = dict(kind="links-relabel", case=case, variant=variant)
        if out_a != out_b:
            diff = [k for k in ("atoms", "edges", "ixns") if out_a[k] != out_b[k]]
            only_a = [x for x in out_a["ixns"] if x not in out_b["ixns"]][:3]
            only_b = [x for x in out_b["ixns"] if x not in out_a["ixns"]][:3]
            ctx.oracle_fail("relabel-changes-output", "renaming the residue-graph nodes / other insertion order / reversed edges "
                            "changes the molecule after link application (%s differ): only before %s, only after %s | graph %s -> %s"
                            % (", ".join(diff), only_a, only_b, case["graph"], variant["graph"]), replay)
        nevents = ans_a.get("nevents", 0)
        ctx.case(("links-relabel", json.dumps(replay, sort_keys=True)) if nevents >= 1 else None, kind="links-relabel",
                 links_accepted=("0" if nevents == 0 else "1-3" if nevents <= 3 else "4+"))


def source_anchor(ctx):
    """`C13_history` models gen_params as loading a FRESH force field on every call: check the anchor in the
    current source (gen_itp.py: `force_field = load_ff_library(name, lib, inpath)` with no force-field argument,
    load_library.py: a new `vermouth.forcefield.ForceField` unless one is passed in)"""
    import ast
    problems = []
    src = os.path.join(common.REPO, "polyply", "src")
    tree = ast.parse(open(os.path.join(src, "gen_itp.py")).read())
    func = next((n for n in ast.walk(tree) if isinstance(n, ast.FunctionDef) and n.name == "gen_params"), None)
    calls = [n for n in ast.walk(func) if isinstance(n, ast.Call) and getattr(n.func, "id", None) == "load_ff_library"] if func else []
    if len(calls) != 1 or len(calls[0].args) != 3 or calls[0].keywords:
        problems.append("gen_params does not call load_ff_library(name, lib, inpath) exactly once")
    tree = ast.parse(open(os.path.join(src, "load_library.py")).read())
    func = next((n for n in ast.walk(tree) if isinstance(n, ast.FunctionDef) and n.name == "load_ff_library"), None)
    fresh = [n for n in ast.walk(func) if isinstance(n, ast.Call) and isinstance(n.func, ast.Attribute)
             and n.func.attr == "ForceField"] if func else []
    if not fresh:
        problems.append("load_ff_library does not construct a new ForceField")
    ctx.obligations.append(dict(name="anchor:fresh-force-field-per-call", kind="translator", ok=not problems,
                                detail="; ".join(problems) or "gen_itp.py / load_library.py anchors found"))


def history_prologue(ctx, rng):
    """Designed pairs of calls, run while this process has not called gen_params yet: call B alone, then call A,
    then B again.  A = explicit -mods selection / other force field / other graph; B = default termini.  A state
    that one call leaves behind for the next (class attributes, module globals, mutable defaults) shows as a
    difference between the two B results, and the concrete pair (A, B) is reported."""
    def protein_case(explicit):
        for _ in range(400):
            case = c01.make_case(rng, protein=True, multires=False)
            names = {m["name"] for m in case["ff"]["mods"]}
            if not {"N-ter", "C-ter"} <= names or c01.expected_reject(case) or c01.features(case):
                continue
            if explicit and case["mods"]:
                return case
            if not explicit and case["mods"] is None and any(n[2] in gen.PROTEIN_NAMES for n in case["graph"]["nodes"]):
                return case
        return None
    pairs = []
    b_case = protein_case(False)
    for _ in range(2):
        a_case = protein_case(True)
        if a_case is not None and b_case is not None:
            pairs.append((a_case, b_case))
    if b_case is None:
        return
    fresh_e2e = observe_e2e(b_case["files"], b_case["graph"], b_case["mods"])[0]
    fresh_st = observe_stages(b_case["files"], b_case["graph"], b_case["mods"])[0]
    for a_case, _ in pairs:
        observe_e2e(a_case["files"], a_case["graph"], a_case["mods"])
        observe_stages(a_case["files"], a_case["graph"], a_case["mods"])
        again_e2e = observe_e2e(b_case["files"], b_case["graph"], b_case["mods"])[0]
        again_st = observe_stages(b_case["files"], b_case["graph"], b_case["mods"])[0]
        verdict = "same"
        for path, a, b in (("gen_params", fresh_e2e, again_e2e), ("processors", fresh_st, again_st)):
            if not same(a, b):
                verdict = "differs"
                ctx.oracle_fail("history-changes-output",
                                "%s without -mods gives another result after an earlier call with -mods %s than in a fresh "
                                "process: %s" % (path, a_case["mods"], describe_diff(a, b)),
                                dict(kind="history", case=c01.case_replay(b_case), others=[c01.case_replay(a_case)]))
        ctx.case(json.dumps(["prologue", a_case["mods"], b_case["graph"]["nodes"]], default=str), kind="history",
                 transform="history:mods-then-default", verdict=verdict)


def corpus_specs():
    path = os.path.join(common.VERIF, "corpus", PID)
    out = []
    if os.path.isdir(path):
        for name in sorted(os.listdir(path)):
            data = json.load(open(os.path.join(path, name)))
            inp = data.get("input", data)
            case = c01.case_from_replay(inp["case"])
            out.append((case, inp["kind"], inp.get("seed", 0)))
            # past failures are cheap to re-probe: the other graph transformations, other random choices
            for kind in ("relabel", "insertion", "edges"):
                for seed in (11, 23):
                    out.append((case, kind, seed))
    return out


def run(ctx):
    ctx.extra["rule"] = RULE
    ctx.extra["trusted"] = [
        "the C01 model (Model/MapToMol.lean) is tied to the code by C01's correspondence; here it is re-run on every "
        "transformed input (streams model-vs-code:*)",
        "link matching is not modelled: the recorded link operations of each run are fed to the model",
        "load_library model (Model/LoadLibrary.lean): pathlib.Path.suffix and os.listdir are parameters (the harness passes "
        "what the same calls return); what a parser does with the lines of a file is not part of it (stand-in parsers in "
        "library:read_options, the real parsers in library:load_ff)",
    ]
    ctx.assumptions += [
        "residue ids are fixed by the input (the statement: 'residue ids fixed'); pairwise distinct, contiguous",
        "definitions are non-conflicting: distinct block / modification names; links keep their relative order when "
        "two of them write the same interaction key with different parameters",
        "known-finding shapes (link-multiterm-file-order, ff-itp-file-order, see notes/C13_findings.md) are "
        "generated only when listed in known_findings.txt or VERIF_C01_FINDINGS",
    ]
    source_anchor(ctx)
    run_library(ctx)
    run_links_relabel(ctx, ctx.budget(150, 2500))
    rng = ctx.rng
    findings = sorted(set(c01.enabled_findings("C13")) | set(c01.enabled_findings("C01")))
    findings = [f for f in findings if f in C13_FINDINGS]
    ctx.extra["explanation"] = "finding streams enabled: %s" % (findings or "none")
    specs = corpus_specs()
    count = ctx.budget(450, 7000)
    for idx in range(count):
        kw = {}
        if idx % 4 == 0:
            kw = dict(protein=True)
        if idx % 5 == 0:
            kw = dict(multires=True, keys="offset")
        if idx % 9 == 0:
            kw = dict(protein=True, keys="0..n-1", shuffle=False)
        kind = KINDS[idx % len(KINDS)]
        if kind == "definitions" and idx % 4 == 3:
            # an atom-removing link next to other links (one of them mentioning the removed atom): whatever the
            # renumbering of the residues (known C01 finding) does, it does in both orders
            kw = dict(kw, findings=("atom-removed-by-link",))
        case = c01.make_case(rng, **kw)
        specs.append((case, kind, rng.randint(0, 10 ** 9)))
    history_prologue(ctx, rng)
    # the very first call of this process, repeated after everything else has run
    first = specs[0][0] if specs else None
    first_obs = observe_e2e(first["files"], first["graph"], first["mods"])[0] if first else None
    first_st = observe_stages(first["files"], first["graph"], first["mods"])[0] if first else None
    for chunk in range(0, len(specs), 200):
        run_batch(ctx, specs[chunk:chunk + 200], ())
    if first is not None:
        last_obs = observe_e2e(first["files"], first["graph"], first["mods"])[0]
        last_st = observe_stages(first["files"], first["graph"], first["mods"])[0]
        for path, a, b in (("gen_params", first_obs, last_obs), ("processors", first_st, last_st)):
            if not same(a, b):
                ctx.oracle_fail("history-changes-output", "the first %s call of the process gives a different result when "
                                "repeated after %d other calls: %s" % (path, len(specs), describe_diff(a, b)),
                                dict(kind="history", case=c01.case_replay(first), others=[c01.case_replay(s[0]) for s in specs[1:4]]))
        ctx.case("first-vs-last", kind="history", transform="first-vs-last", verdict="same" if same(first_obs, last_obs) else "differs")
    for shape in findings:
        sub = random.Random("finding %s %d" % (shape, ctx.seed))
        fspecs, tries = [], 0
        while len(fspecs) < ctx.budget(30 if shape == "ff-itp-file-order" else 12, 80) and tries < 3000:
            tries += 1
            case = c01.make_case(sub, findings=(shape,))
            if shape == "link-multiterm-file-order":
                if shape in c01.features(case):
                    fspecs.append((case, "definitions", sub.randint(0, 10 ** 9)))
            elif shape == "ff-itp-file-order":
                if len({b["syntax"] for b in case["ff"]["blocks"]}) == 2 and len({b["nrexcl"] for b in case["ff"]["blocks"]}) > 1:
                    fspecs.append((case, "definitions", sub.randint(0, 10 ** 9)))

        run_batch(ctx, fspecs, (shape,))


def replay(ctx, data):
    if data.get("kind") == "no-failing-input-found":
        print("replay names obligations that no longer check:")
        inputs = []
        for item in data.get("no_longer_checks", []):
            print("  ", item["name"], "-", item["detail"][:300])
            if item.get("input"):
                inputs.append(item["input"])
    else:
        inputs = [data.get("input") or data]
    pending = []
    for inp in [i for i in inputs if i.get("kind") == "links-relabel"]:
        import c02
        out_a, out_b = c02.run_real(inp["case"])[1], c02.run_real(inp["variant"])[1]
        if out_a != out_b:
            ctx.oracle_fail("relabel-changes-output", "replayed: the molecule differs under relabelling", inp)
    inputs = [inp for inp in inputs if inp.get("kind") != "links-relabel"]
    if any(inp.get("kind") == "library" for inp in inputs):
        run_library(ctx)        # the library streams are cheap and deterministic per seed: re-run them whole
        inputs = [inp for inp in inputs if inp.get("kind") != "library"]
    for inp in inputs:
        case = c01.case_from_replay(inp["case"])
        record = dict(case=case, kind=inp["kind"], replay=inp, checks=[], label=inp["kind"] + ":replayed")
        base_e2e, base_text = observe_e2e(case["files"], case["graph"], case["mods"])
        base_st, _ = observe_stages(case["files"], case["graph"], case["mods"])
        record["base_e2e"] = base_e2e
        if inp.get("variant"):
            variant = c01.case_from_replay(inp["variant"])
            var_e2e, _ = observe_e2e(variant["files"], variant["graph"], variant["mods"])
            var_st, _ = observe_stages(variant["files"], variant["graph"], variant["mods"])
            record["checks"] = [("gen_params", base_e2e, var_e2e), ("processors", base_st, var_st)]
        else:
            for other in inp.get("others", []):
                o = c01.case_from_replay(other)
                real.run_gen_params(o["files"], o["graph"], o["mods"], name="other")
            again_e2e, again_text = observe_e2e(case["files"], case["graph"], case["mods"])
            record["checks"] = [("gen_params", base_e2e, again_e2e)]
            if base_text is not None and again_text is not None:
                record["text_pair"] = (strip_header(base_text), strip_header(again_text))
        judge(ctx, record, [])
    for b in ctx.broken:
        print("REPLAY-DISAGREES", b["name"], b["detail"][:600])
