"""C03 — gen_coords writes one finite coordinate per topology atom, in topology order.

Statement (properties.jsonl, fixed):
  "For every topology and option set that gen_coords accepts, the output structure lists exactly the
   atoms of the expanded [molecules] section, in topology order with their residue numbers, residue names
   and atom names, each with finite coordinates. It carries the box that was requested, or the box of the
   input structure when one is given, or a cubic box whose volume equals total mass over requested
   density."

Every case is a complete run of the REAL `gen_coords` (in-process) on a generated topology
(1-4 molecule types, `[ molecules ]` lines with counts 1-3, repeated and non-adjacent names, 1-3-atom
residues, virtual sites, explicit or atom-type masses) x an option combination of
-box / -dens / -c (complete, truncated) / -mc (alone, with -box, with -dens) / -res / -grid / -start x a
seed; plus two streams about placement outcomes: chains whose supplied and rebuilt residues alternate, with
a schedule of failing placement steps (rewinds / retries; `RandomWalk.update_positions` is interposed to return
False at the scheduled calls; some schedules have more consecutive failed attempts of a molecule than a small
`-mi` (BuildSystem maxiter 0/1/2) allows, so `_handle_random_walk` gives up once), and one system with > 5000 supplied one-bead molecules and a chain whose first
attempt fails.  A run that crashes on an input the model accepts is reported with that input.  The written .gro is
parsed (fixed columns, as vermouth writes it) and compared with
  * the Lean MODEL of the writing loops (`Coords.listing`: correspondence stream `listing`) and of the box
    decision (`Coords.chooseBox`, mass by `Coords.massOf`, stream `box`);
  * the Lean SPECIFICATION (`Coords.specListing`, `Coords.specBox`): oracle, plus: every coordinate is
    finite, and for the density case edge^3 * density / 1.6605410 = total mass (rel. 1e-4: the edge is
    rounded to 5 decimals and printed).

Stream `start-grid` (no gen_coords run): the default start grid of the REAL `BuildSystem.__init__`
(`np.mgrid[0:box:spacing]` x3 + the `< box` filter of fix 28d4aca) for (a) every (edge, spacing) pair of a
one-dimensional dyadic domain on each axis in turn -- exhaustive, exact multiples / edge < spacing / edge =
spacing included -- and random three-dimensional dyadic boxes: correspondence with `Coords.startGrid` (float
arithmetic is exact on these inputs) AND the specification `Coords.specGrid` (grid not empty, every point in
[0, box) in every dimension: `C03_grid_inside`, `C03_grid_nonempty`, `C03_grid_filter`); (b) decimal boxes and
spacings that are not exact in double (2.1 / 0.3, the input of the repaired defect, first): specification only.

Trusted / modelled: float `**(1/3.)` and `round(., 5)` (evaluated by this harness on the model's exact
volume), vermouth's .gro writer and reader, template generation and scipy's optimiser (a non-finite
coordinate they produce would be reported by the oracle), numpy.random.
"""
import fractions
import json
import math
import os
import random
import signal
import tempfile

import common
from common import rat_str, frac

RULE = ("complete gen_coords runs: 1-4 molecule types x [molecules] lines with counts 1-3 (names may repeat on "
        "non-adjacent lines) x residues of 1-3 atoms (virtual sites, explicit / atom-type masses) x option "
        "combinations of -box/-dens/-c/-mc/-res/-grid/-start x seeds; non-trivial when the system has more "
        "than one atom; distinct = full input description; start grid: all 168 (edge, spacing) pairs of the dyadic "
        "1-D domain (exhaustive) + random dyadic 3-D boxes + decimal boxes")

MASSES = {"CA": 12.0, "CB": 15.0, "CC": 36.5, "VS": 0.0, "VM": 72.0}
VIRTUAL = ("VS", "VM")


Timeout = common.CaseTimeout


def _alarm(*_args):
    raise Timeout()


# ------------------------------------------------------------------------------------------ inputs

def gen_residue(rng, resname):
    nreal = rng.choice([1, 1, 2, 2, 3])
    atoms = []
    for i in range(nreal):
        atype = rng.choice(["CA", "CB", "CC"])
        # explicit mass column or the atom type's mass
        mass = rng.choice([None, None, MASSES[atype], 24.25])
        atoms.append(["%s%d" % (atype[1], i + 1), atype, mass])
    if nreal >= 2 and rng.random() < 0.4:
        # virtual site: massless atom type, or (the Martini-3 way) a massive bead type with an explicit
        # mass of 0 in [ atoms ]
        atoms.append(["V1", rng.choice(["VS", "VM"]), rng.choice([0.0, 0.0, 0.0, None])])
    return dict(resname=resname, atoms=atoms)


def gen_type(rng, name):
    nres = rng.choice([1, 1, 2, 3, 4])
    kinds = [gen_residue(rng, "R" + name), gen_residue(rng, "Q" + name)]
    residues = []
    for _ in range(nres):
        src = rng.choice(kinds)
        residues.append(dict(resname=src["resname"], atoms=[list(a) for a in src["atoms"]]))
    t = dict(name=name, residues=residues, resid0=rng.choice([1, 1, 1, 7, 28]))
    # residue numbering: consecutive from 1 / an offset (normally); across the five-digit limit of the .gro
    # format (99999 -> 100000, printed modulo 100000); with gaps; non-monotonic (second half of the chain
    # numbered first); a di-block whose numbering restarts -- (resid, resname) stays unique inside a molecule,
    # which is what identifies a residue for polyply
    roll = rng.random()
    n = len(residues)
    if roll < 0.08:
        t["resid0"] = 99999 - rng.randint(0, n)
    elif roll < 0.18:
        t["resids"] = [t["resid0"] + 2 * r + (r // 2) for r in range(n)]
    elif roll < 0.28 and n >= 2:
        k = rng.randint(1, n - 1)
        t["resids"] = list(range(k + 1, n + 1)) + list(range(1, k + 1))
    elif roll < 0.36 and n >= 3:
        k = rng.randint(2, n - 1)
        t["resids"] = list(range(1, k + 1)) + list(range(1, n - k + 1))
    if "resids" in t and len({(i, r["resname"]) for i, r in zip(t["resids"], residues)}) < n:
        del t["resids"]
    return t


def resid_of(t, r):
    """residue number of residue `r` of molecule type `t`"""
    return t["resids"][r] if "resids" in t else t["resid0"] + r


def gen_case(rng, thorough):
    ntypes = rng.choice([1, 1, 2, 2, 3, 4])
    types = [gen_type(rng, "ABCD"[i]) for i in range(ntypes)]
    nlines = rng.randint(1, ntypes + 1)
    molecules = [[rng.choice(types)["name"], rng.choice([1, 1, 2, 3])] for _ in range(nlines)]
    for t in types[:1]:
        if not any(m[0] == t["name"] for m in molecules):
            molecules[0][0] = t["name"]
    mode = rng.choice(["box", "box", "dens", "dens", "dens", "input", "input", "meta", "both", "input+dens",
                       "meta+box", "meta+dens"]
                      if rng.random() < 0.97 else ["none"])
    opts = dict(mode=mode)
    length = float(rng.choice([5, 6, 7.5]))
    if mode in ("box", "both", "meta+box"):
        opts["box"] = [length, rng.choice([length, length + 1.0]), length]
    if mode in ("dens", "input+dens", "meta+dens"):
        opts["density"] = float(rng.choice([10, 20, 35.5, 50]))
    if mode in ("input", "both", "meta", "input+dens", "meta+box", "meta+dens"):
        inbox = [length, length, rng.choice([length, length + 0.5])]
        if mode in ("both", "meta+box") and rng.random() < 0.3:
            inbox = list(opts["box"])
        opts["input_box"] = inbox
        opts["input_kind"] = "meta" if mode.startswith("meta") else rng.choice(["full", "full", "truncated"])
        opts["keep"] = rng.random()
        if opts["input_kind"] == "full" and rng.random() < 0.4:
            names = sorted({r["resname"] for t in types for r in t["residues"]})
            opts["build_res"] = [rng.choice(names)]
        opts["input_seed"] = rng.randint(0, 10 ** 6)
        # -ign: a molecule type whose instances are all given in the input structure (and none of whose
        # residues is rebuilt with -res) is left alone; it is still part of the output, in topology order
        if opts["input_kind"] == "full" and rng.random() < 0.45:
            rebuilt = set(opts.get("build_res", []))
            names = sorted({m[0] for m in molecules})
            ok = [n for n in names
                  if not any(r["resname"] in rebuilt for t in types if t["name"] == n for r in t["residues"])]
            # ignoring EVERY molecule of the system makes gen_coords raise (notes/C03_findings.md, O1): such
            # cases are only generated with VERIF_C03_ALL_IGNORED=1
            if len(names) < 2 and os.environ.get("VERIF_C03_ALL_IGNORED") != "1":
                ok = []
            if ok:
                opts["ignore"] = [rng.choice(ok)]
    if rng.random() < 0.25:
        opts["grid"] = rng.randint(5, 40)
        opts["grid_seed"] = rng.randint(0, 10 ** 6)
    if rng.random() < 0.25:
        name, _ = rng.choice(molecules)
        t = next(t for t in types if t["name"] == name)
        r = rng.randrange(len(t["residues"]))
        opts["start"] = ["%s-%s#%d" % (name, t["residues"][r]["resname"], resid_of(t, r))]
    if rng.random() < 0.2:
        opts["grid_spacing"] = rng.choice([0.5, 1.0])
    case = dict(types=types, molecules=molecules, opts=opts, seed=rng.randint(0, 10 ** 6))
    if rng.random() < 0.15:
        # the same topology spread over include files in a sub-directory, with a look-alike file in the
        # working directory (see write_top); what is expanded and written must not change
        case["layout"] = "include-nested"
    elif rng.random() < 0.15:
        case["layout"] = "include-ifdef"
        case["ifdef"] = dict(cond=rng.choice(["ifdef", "ifndef"]), defined=rng.random() < 0.5)
    return case


def gen_interleaved(rng):
    """a chain given with -c whose residues of one name are rebuilt (-res): supplied and built residues
    alternate along the chain; some placement steps fail (schedule `fail_calls`: the n-th call of
    RandomWalk.update_positions returns False, as it does when every trial vector is rejected), so the
    walk rewinds or the molecule is retried"""
    nres = rng.randint(8, 16)
    kinds = [gen_residue(rng, "RA"), gen_residue(rng, "QA")]
    pattern = rng.choice([[0, 1], [0, 1], [0, 0, 1], [0, 1, 1], [1, 0]])
    residues = []
    for i in range(nres):
        src = kinds[pattern[i % len(pattern)]]
        residues.append(dict(resname=src["resname"], atoms=[list(a) for a in src["atoms"]]))
    types = [dict(name="A", residues=residues, resid0=1)]
    molecules = [["A", rng.choice([1, 1, 2])]]
    if rng.random() < 0.4:
        types.append(gen_type(rng, "B"))
        molecules.insert(rng.randint(0, 1), ["B", rng.choice([1, 2])])
    length = float(rng.choice([6, 7.5, 9]))
    nfail = rng.choice([1, 1, 2, 3])
    opts = dict(mode="input", input_box=[length] * 3, input_kind="full", keep=1.0,
                build_res=[rng.choice(["RA", "QA"])], input_seed=rng.randint(0, 10 ** 6),
                fail_calls=sorted(rng.sample(range(1, 2 * nres), nfail)))
    if rng.random() < 0.3:
        opts["box"] = [length, length + 1.0, length]
        opts["mode"] = "both"
    if rng.random() < 0.35:
        giveup(rng, opts)
    return dict(types=types, molecules=molecules, opts=opts, seed=rng.randint(0, 10 ** 6))


def giveup(rng, opts):
    """a small maximum number of attempts per molecule (-mi 0/1/2) and at least that many + 1 CONSECUTIVE
    failed attempts: `_handle_random_walk` gives up once; gen_coords must still place the molecule"""
    opts["maxiter"] = rng.choice([0, 1, 2])
    # every attempt of a molecule with >= 2 residues to build makes one call and fails at it
    opts["fail_calls"] = list(range(1, opts["maxiter"] + 2 + rng.randint(0, 2)))


def gen_giveup(rng):
    """fully built chains (no input structure) whose first attempts fail more often than -mi allows"""
    nres = rng.randint(2, 6)
    kinds = [gen_residue(rng, "RA"), gen_residue(rng, "QA")]
    residues = []
    for _ in range(nres):
        src = rng.choice(kinds)
        residues.append(dict(resname=src["resname"], atoms=[list(a) for a in src["atoms"]]))
    types = [dict(name="A", residues=residues, resid0=1)]
    molecules = [["A", rng.choice([1, 2, 3])]]
    if rng.random() < 0.5:
        types.append(gen_type(rng, "B"))
        molecules.insert(rng.randint(0, 1), ["B", rng.choice([1, 2])])
    length = float(rng.choice([5, 6, 7.5]))
    opts = dict(mode="box", box=[length] * 3)
    if rng.random() < 0.4:
        opts = dict(mode="dens", density=float(rng.choice([10, 20])))
    giveup(rng, opts)
    return dict(types=types, molecules=molecules, opts=opts, seed=rng.randint(0, 10 ** 6))


def gen_branched_retry(rng):
    """fully built branched molecules (stars, combs, random trees; chains too) whose FIRST attempt is given up
    after some residues were placed (a failing step with fewer placed residues than a rewind needs) and whose
    LATER attempt has a failing step as well (rewind or another retry): every placement outcome must still end
    with every residue positioned once"""
    nres = rng.randint(4, 9)
    shape = rng.choice(["star", "comb", "tree", "chain"])
    if shape == "star":
        parents = [None] + [0] * (nres - 1)
    elif shape == "comb":
        back = max(2, nres // 2)
        parents = [None] + list(range(back - 1)) + [rng.randrange(back) for _ in range(nres - back)]
    elif shape == "tree":
        parents = [None] + [rng.randrange(i) for i in range(1, nres)]
    else:
        parents = [None] + list(range(nres - 1))
    kinds = [gen_residue(rng, "RA"), gen_residue(rng, "QA")]
    residues = []
    for _ in range(nres):
        src = rng.choice(kinds)
        residues.append(dict(resname=src["resname"], atoms=[list(a) for a in src["atoms"]]))
    types = [dict(name="A", residues=residues, resid0=1, parents=parents)]
    molecules = [["A", rng.choice([1, 1, 2])]]
    length = float(rng.choice([6, 7.5, 9]))
    opts = dict(mode="box", box=[length] * 3)
    first = rng.randint(2, min(5, nres - 1))          # the first attempt places first-1 residues, then gives up
    later = first + rng.randint(2, nres)              # a failing step inside a later attempt
    opts["fail_calls"] = sorted({first, later} | ({later + rng.randint(1, 3)} if rng.random() < 0.3 else set()))
    opts["stream"] = "branched-retry"
    return dict(types=types, molecules=molecules, opts=opts, seed=rng.randint(0, 10 ** 6))


def gen_crowded(rng, nsolvent=5001):
    """more than 5000 supplied one-bead molecules (the engine opens a new KD-tree for the next molecule)
    plus one chain to build whose first attempt fails after its first residue was placed"""
    solvent = dict(name="W", residues=[dict(resname="W", atoms=[["W", "CC", None]])], resid0=1)
    chain = dict(name="A", residues=[dict(resname="RA", atoms=[["C1", "CA", None]]) for _ in range(rng.randint(2, 4))],
                 resid0=1)
    opts = dict(mode="input", input_box=[12.0, 12.0, 12.0], input_kind="truncated", keep_res=nsolvent,
                slab=True, input_seed=rng.randint(0, 10 ** 6), fail_calls=[1], grid_spacing=1.0)
    return dict(types=[solvent, chain], molecules=[["W", nsolvent], ["A", 1]], opts=opts, seed=rng.randint(0, 10 ** 6))


def type_atoms(t):
    """[(resid, resname, atomname, atype, explicit mass)] of a molecule type, in file order"""
    out = []
    for r, res in enumerate(t["residues"]):
        for atomname, atype, mass in res["atoms"]:
            out.append((resid_of(t, r), res["resname"], atomname, atype, mass))
    return out


def write_top(path, case):
    """`layout` = None: one file.  "include-nested": the molecule types live in ff/mols.itp, included by
    ff/main.itp as "mols.itp" (relative to the INCLUDING file, as in GROMACS), which system.top includes as
    "ff/main.itp"; the directory of system.top (the working directory of the run) holds a DECOY mols.itp that
    defines the same names with a single atom each -- it must not be read."""
    layout = case.get("layout")
    if layout == "include-nested":
        base = os.path.dirname(path)
        os.makedirs(os.path.join(base, "ff"), exist_ok=True)
        with open(os.path.join(base, "ff", "main.itp"), "w") as out:
            out.write('#include "mols.itp"\n')
        with open(os.path.join(base, "mols.itp"), "w") as out:
            for t in case["types"]:
                out.write("[ moleculetype ]\n%s 1\n[ atoms ]\n1 CA 1 DECOY D1 1 0.0 12.0\n" % t["name"])
        mol_path = os.path.join(base, "ff", "mols.itp")
        include_text = '#include "ff/main.itp"\n'
    elif layout == "include-ifdef":
        # the flexible/rigid idiom: `#ifdef X / #include "a.itp" / #else / #include "b.itp" / #endif` (or #ifndef)
        # at the top level, X defined or not; both files define the same molecule types, the file of the ACTIVE
        # branch has the real definitions, the other one a one-atom decoy
        base = os.path.dirname(path)
        os.makedirs(os.path.join(base, "ff"), exist_ok=True)
        cond, defined = case["ifdef"]["cond"], case["ifdef"]["defined"]
        first_active = defined if cond == "ifdef" else not defined
        active, inactive = ("a.itp", "b.itp") if first_active else ("b.itp", "a.itp")
        with open(os.path.join(base, "ff", inactive), "w") as out:
            for t in case["types"]:
                out.write("[ moleculetype ]\n%s 1\n[ atoms ]\n1 CA 1 DECOY D1 1 0.0 12.0\n" % t["name"])
        mol_path = os.path.join(base, "ff", active)
        include_text = ("#define VARIANT\n" if defined else "") + \
            '#%s VARIANT\n#include "ff/a.itp"\n#else\n#include "ff/b.itp"\n#endif\n' % cond
    else:
        mol_path = None
    with open(path, "w") as top_out:
        top_out.write("[ defaults ]\n1 1 no 1.0 1.0\n[ atomtypes ]\n")
        for atype, mass in MASSES.items():
            top_out.write("%s %g 0.0 %s 0.0026 2.6e-06\n" % (atype, mass, "V" if atype == "VS" else "A"))
        if mol_path is not None:
            top_out.write(include_text)
        out = open(mol_path, "w") if mol_path is not None else top_out
        for t in case["types"]:
            out.write("[ moleculetype ]\n%s 1\n[ atoms ]\n" % t["name"])
            idx, bonds, vsn, ends = 0, [], [], []
            for r, res in enumerate(t["residues"]):
                ids = []
                for atomname, atype, mass in res["atoms"]:
                    idx += 1
                    ids.append(idx)
                    out.write("%d %s %d %s %s %d 0.0%s\n" % (idx, atype, resid_of(t, r), res["resname"], atomname, idx,
                                                             "" if mass is None else " %r" % mass))
                real = [i for i, a in zip(ids, res["atoms"]) if a[1] not in VIRTUAL]
                bonds += list(zip(real[:-1], real[1:]))
                vsn += [(i, real) for i, a in zip(ids, res["atoms"]) if a[1] in VIRTUAL]
                ends.append((real[0], real[-1]))
            # residue r hangs on residue parents[r] (default: the previous one, a linear chain)
            parents = t.get("parents") or [None] + list(range(len(ends) - 1))
            bonds += [(ends[parents[r]][1], ends[r][0]) for r in range(1, len(ends))]
            if bonds:
                out.write("[ bonds ]\n")
                for a, b in bonds:
                    out.write("%d %d 1 0.25 5000\n" % (a, b))
            if vsn:
                out.write("[ virtual_sitesn ]\n")
                for i, real in vsn:
                    out.write("%d 1 %s\n" % (i, " ".join(map(str, real))))
        if mol_path is not None:
            out.close()
        top_out.write("[ system ]\nverif\n[ molecules ]\n")
        for name, count in case["molecules"]:
            top_out.write("%s %d\n" % (name, count))


def expanded(case):
    types = {t["name"]: t for t in case["types"]}
    out = []
    for name, count in case["molecules"]:
        for _ in range(count):
            out.append(types[name])
    return out


def approx_edge(case):
    """edge of the density cube (for placing grid points inside it)"""
    total = sum(MASSES[a[3]] if a[4] is None else a[4] for t in expanded(case) for a in type_atoms(t))
    return (total * 1.6605410 / case["opts"].get("density", 1000.0)) ** (1 / 3.)


def write_input(path, case):
    """a structure file for -c / -mc: compact residues on a coarse lattice inside the box"""
    opts = case["opts"]
    rng = random.Random(opts["input_seed"])
    box = opts["input_box"]
    lines, resid_lines = [], []
    if opts.get("slab"):
        # a dense slab below z = 8 nm, the rest of the box stays free for the molecule that is built
        cells = [(0.3 + 0.6 * i, 0.3 + 0.6 * j, 0.3 + 0.6 * k) for k in range(13) for j in range(19) for i in range(19)]
    else:
        cells = [(i, j, k) for i in range(1, int(box[0])) for j in range(1, int(box[1])) for k in range(1, int(box[2]))]
        rng.shuffle(cells)
    cell = 0
    for t in expanded(case):
        for r, res in enumerate(t["residues"]):
            centre = [c + rng.uniform(-0.1, 0.1) for c in cells[cell % len(cells)]]
            cell += 1
            atoms = []
            for atomname, _atype, _mass in res["atoms"]:
                atoms.append((resid_of(t, r), res["resname"], atomname,
                              [round(c + rng.uniform(-0.12, 0.12), 3) for c in centre]))
            resid_lines.append(atoms)
    if opts["input_kind"] == "meta":
        nres = len(resid_lines)
        keep = nres if opts["keep"] < 0.7 else max(1, int(nres * opts["keep"]) - 1)
        for atoms in resid_lines[:keep]:
            cog = [round(sum(a[3][i] for a in atoms) / len(atoms), 3) for i in range(3)]
            lines.append((atoms[0][0], atoms[0][1], "C", cog))
    else:
        keep = len(resid_lines)
        if opts["input_kind"] == "truncated":
            keep = opts.get("keep_res") or max(1, int(len(resid_lines) * opts["keep"]))
        for atoms in resid_lines[:keep]:
            lines += atoms
    with open(path, "w") as out:
        out.write("input structure\n%d\n" % len(lines))
        for i, (resid, resname, atomname, pos) in enumerate(lines, start=1):
            out.write("%5d%-5s%5s%5d%8.3f%8.3f%8.3f\n" % (resid % 100000, resname, atomname, i % 100000, *pos))
        out.write(" ".join(repr(float(x)) for x in box) + "\n")
    return keep, len(resid_lines)


def parse_gro(path):
    with open(path) as handle:
        lines = handle.read().split("\n")
    natoms = int(lines[1])
    atoms = []
    for line in lines[2:2 + natoms]:
        coords = []
        for i in range(3):
            token = line[20 + 8 * i:28 + 8 * i].strip()
            try:
                coords.append(float(token))
            except ValueError:
                coords.append(float("nan"))
        atoms.append([int(line[0:5]), line[5:10].strip(), line[10:15].strip(), coords])
    box = [float(x) for x in lines[2 + natoms].split()]
    return atoms, box


# ------------------------------------------------------------------------------------------ the real run

def real_run(case, timeout, workdir=None):
    """one gen_coords run.  `workdir`: a directory that is REUSED by consecutive runs of this process -- the
    files carry the same names (s.top, in.gro, grid.dat, out.gro, ff/...) with new contents every time, as in a
    step-wise build script; it is emptied, not removed, after the run"""
    import numpy as np
    import shutil
    from pathlib import Path
    from polyply.src import gen_coords as gc
    opts = case["opts"]
    if workdir is None:
        tmp = tempfile.mkdtemp(prefix="c03_")
    else:
        tmp = workdir
        for name in os.listdir(tmp):
            full = os.path.join(tmp, name)
            shutil.rmtree(full, ignore_errors=True) if os.path.isdir(full) else os.remove(full)
    top, gro = os.path.join(tmp, "s.top"), os.path.join(tmp, "out.gro")
    write_top(top, case)
    kwargs = dict(toppath=Path(top), outpath=Path(gro), name="verif")
    if "box" in opts:
        kwargs["box"] = np.array(opts["box"], dtype=float)
    if "density" in opts:
        kwargs["density"] = opts["density"]
    if "input_kind" in opts:
        inp = os.path.join(tmp, "in.gro")
        write_input(inp, case)
        kwargs["coordpath_meta" if opts["input_kind"] == "meta" else "coordpath"] = Path(inp)
        if opts.get("build_res"):
            kwargs["build_res"] = list(opts["build_res"])
        if opts.get("ignore"):
            kwargs["ignore"] = list(opts["ignore"])
    if "grid" in opts:
        rng = random.Random(opts["grid_seed"])
        ref = (opts.get("input_box") if "input_kind" in opts else None) or opts.get("box") or [approx_edge(case)] * 3
        path = os.path.join(tmp, "grid.dat")
        with open(path, "w") as out:
            for _ in range(opts["grid"]):
                out.write(" ".join("%.3f" % rng.uniform(0.05, 0.95 * l) for l in ref) + "\n")
        kwargs["grid"] = path
    if "start" in opts:
        kwargs["start"] = list(opts["start"])
    if "grid_spacing" in opts:
        kwargs["grid_spacing"] = opts["grid_spacing"]
    if "maxiter" in opts:
        kwargs["maxiter"] = opts["maxiter"]
    from polyply.src import random_walk
    orig_update = random_walk.RandomWalk.update_positions
    fail_calls = set(opts.get("fail_calls", []))
    calls = [0]

    def update_positions(self, vector_bundle, current_node, prev_node):
        calls[0] += 1
        if calls[0] in fail_calls:
            return False          # what the real method returns when all its trial points were rejected
        return orig_update(self, vector_bundle, current_node, prev_node)
    if fail_calls:
        random_walk.RandomWalk.update_positions = update_positions
    np.random.seed(case["seed"])
    random.seed(case["seed"])
    cwd = os.getcwd()
    if case.get("layout"):
        os.chdir(tmp)            # polyply is run from the directory of the topology
    old = signal.signal(signal.SIGALRM, _alarm)
    signal.setitimer(signal.ITIMER_REAL, timeout, 1.0)
    res = dict()
    try:
        gc.gen_coords(**kwargs)
        signal.setitimer(signal.ITIMER_REAL, 0)
        atoms, box = parse_gro(gro)
        res = dict(status="ok", atoms=atoms, box=box)
    except Timeout:
        res = dict(status="timeout")
    except Exception as err:  # pylint: disable=broad-except
        res = dict(status="error", err=type(err).__name__, text=str(err)[:200])
    finally:
        signal.setitimer(signal.ITIMER_REAL, 0)
        signal.signal(signal.SIGALRM, old)
        random_walk.RandomWalk.update_positions = orig_update
        os.chdir(cwd)
        if workdir is None:
            shutil.rmtree(tmp, ignore_errors=True)
    return res


# ------------------------------------------------------------------------------------------ model requests

def model_requests(case):
    types = [dict(name=t["name"], atoms=[[a[0], a[1], a[2]] for a in type_atoms(t)]) for t in case["types"]]
    mols = [[name, count] for name, count in case["molecules"]]
    mass_atoms = []
    for t in expanded(case):
        for _resid, _resname, _atomname, atype, mass in type_atoms(t):
            mass_atoms.append([None if mass is None else rat_str(mass), rat_str(MASSES[atype])])
    dens = case["opts"].get("density")
    return [dict(op="listing", types=types, molecules=mols),
            dict(op="spec_listing", types=types, molecules=mols),
            dict(op="mass", atoms=mass_atoms, density=None if dens is None else rat_str(dens))]


def box_request(case, mass_ans):
    opts = case["opts"]
    edge = None
    if mass_ans.get("ok") and mass_ans.get("volume") is not None:
        volume = float(fractions.Fraction(mass_ans["volume"]))
        edge = round(volume ** (1 / 3.), int(mass_ans["digits"]))       # the two float parameters of the model
    cli = opts.get("box")
    inp = opts.get("input_box") if "input_kind" in opts else None
    return dict(op="box", cli=None if cli is None else [rat_str(x) for x in cli],
                input=None if inp is None else [rat_str(x) for x in inp],
                edge=None if edge is None else rat_str(edge))


def close(a, b, rel):
    return abs(a - b) <= rel * max(abs(a), abs(b), 1e-12)


def _numbering(case):
    kinds = set()
    for t in case["types"]:
        ids = [resid_of(t, r) for r in range(len(t["residues"]))]
        kinds.add("past-99999" if max(ids) > 99999 else "consecutive" if "resids" not in t else
                  "repeated" if len(set(ids)) < len(ids) else "non-monotonic" if ids != sorted(ids) else "gaps")
    return "+".join(sorted(kinds))


def judge(ctx, case, res, answers, box_ans):
    listing, spec, mass = answers
    replay = dict(case, history=res.get("history") or [])
    status = res["status"]
    natoms = sum(len(type_atoms(t)) for t in expanded(case))
    key = json.dumps(case, sort_keys=True) if natoms > 1 else None
    if "fail_calls" in case["opts"]:
        ctx.tally(stream=case["opts"].get("stream") or ("crowded" if case["opts"].get("slab") else "giveup" if "maxiter" in case["opts"] else "interleaved"))
    hist = dict(numbering=_numbering(case), layout=case.get("layout") or "one-file", ignore=bool(case["opts"].get("ignore")), mode=case["opts"]["mode"], status=status, types=len(case["types"]), lines=len(case["molecules"]),
                grid="grid" in case["opts"], start="start" in case["opts"],
                input=case["opts"].get("input_kind", "-"), res="build_res" in case["opts"])
    model_box = box_ans.get("box")
    if status == "timeout":
        ctx.case(None, **hist)
        return
    if status == "error":
        # the model rejects exactly the runs with no box information at all
        expected_reject = model_box is None
        ctx.correspond("accepts", dict(ok=False), dict(ok=not expected_reject), replay)
        if not expected_reject:
            ctx.tally(error="%s: %s" % (res["err"], res["text"][:60]))
            ctx.oracle_fail("crash-on-accepted-input", "gen_coords raised %s (%s) and wrote no structure for a topology "
                            "and option set it accepts: molecules %s, options %s"
                            % (res["err"], res["text"][:120], [m for m in case["molecules"]][:6], case["opts"]), replay)
        ctx.case(key, **hist)
        return
    ctx.correspond("accepts", dict(ok=True), dict(ok=model_box is not None), replay)
    impl_atoms = [[a[0], a[1], a[2]] for a in res["atoms"]]
    ctx.correspond("listing", impl_atoms, listing["atoms"], replay)
    # ---- the property itself
    want = spec["atoms"]
    if impl_atoms != want:
        idx = next((i for i, (a, b) in enumerate(zip(impl_atoms, want)) if a != b), min(len(impl_atoms), len(want)))
        ctx.oracle_fail("listing-differs", "output lists %d atoms, expanded [molecules] %s has %d; first difference at "
                        "atom %d: got %s want %s" % (len(impl_atoms), case["molecules"], len(want), idx + 1,
                                                     impl_atoms[idx:idx + 1], want[idx:idx + 1]), replay)
    bad = [(i + 1, a[3]) for i, a in enumerate(res["atoms"]) if not all(math.isfinite(x) for x in a[3])]
    if bad:
        ctx.oracle_fail("non-finite-coordinate", "atom %d has coordinates %s" % bad[0], replay)
    box = res["box"]
    if model_box is not None:
        mbox = [float(fractions.Fraction(x)) for x in model_box]
        ctx.correspond("box", [common.rat_str(round(x, 7)) for x in box], [common.rat_str(round(x, 7)) for x in mbox],
                       replay)
    sbox = box_ans.get("spec")
    opts = case["opts"]
    if "input_kind" in opts:
        if not all(close(a, b, 1e-9) for a, b in zip(box, opts["input_box"])) or len(box) != 3:
            ctx.oracle_fail("box-not-input-box", "output box %s, box of the input structure %s (requested %s)"
                            % (box, opts["input_box"], opts.get("box")), replay)
    elif "box" in opts:
        if not all(close(a, b, 1e-9) for a, b in zip(box, opts["box"])) or len(box) != 3:
            ctx.oracle_fail("box-not-requested-box", "output box %s, requested %s" % (box, opts["box"]), replay)
    elif "density" in opts and mass.get("ok"):
        total = float(fractions.Fraction(mass["mass"]))
        volume = box[0] * box[1] * box[2]
        # mass over density in the code's units (amu, nm, kg/m^3): the physical constant, not the table
        want_volume = total * 1.6605410 / opts["density"]
        if not (close(box[0], box[1], 1e-12) and close(box[1], box[2], 1e-12)) or not close(volume, want_volume, 3e-4):
            ctx.oracle_fail("box-not-density-cube", "output box %s has volume %.6f, total mass %s amu over density %s "
                            "kg/m3 gives %.6f nm3" % (box, volume, total, opts["density"], want_volume), replay)
    if sbox is not None and model_box is not None and sbox != model_box:
        ctx.oracle_fail("box-decision", "model box %s differs from the specification %s" % (model_box, sbox), replay)
    ctx.case(key, sample=dict(molecules=case["molecules"], opts=opts, atoms=len(impl_atoms), box=box), **hist)
    ctx.traces += 1


# ------------------------------------------------------------------------------------------ start grid

GRID_SPACINGS = [fractions.Fraction(k, 8) for k in (1, 2, 3, 4, 6, 8, 10)]
GRID_EDGES = [fractions.Fraction(k, 8) for k in range(1, 25)]
# decimal inputs (not exact in double): judged by the specification only.  (2.1, 0.3) is the input of the
# defect repaired by 28d4aca: 2.1 / 0.3 rounds to 7.000000000000001, 8 points, the last one 7 * 0.3 == 2.1
GRID_DECIMAL = [(2.1, 0.3), (0.9, 0.3), (1.2, 0.1), (3.3, 1.1), (0.7, 0.1), (1.5, 0.3), (2.4, 0.2), (0.6, 0.2),
                (4.2, 0.7), (1.8, 0.6), (5.1, 1.7), (0.3, 0.1), (2.7, 0.9), (1.4, 0.2), (3.6, 1.2), (6.3, 2.1)]


def real_grid(box, spacing):
    """the default `box_grid` of the REAL `BuildSystem.__init__` (box given, no grid given)"""
    import types
    import numpy as np
    from polyply.src.build_system import BuildSystem
    topology = types.SimpleNamespace(molecules=[], atom_types={}, box=None)
    builder = BuildSystem(topology, density=None, start_dict={}, grid_spacing=float(spacing),
                          box=np.array([float(x) for x in box]))
    grid = np.asarray(builder.box_grid)
    return [[rat_str(v) for v in row] for row in grid.tolist()], [rat_str(x) for x in topology.box]


def grid_cases(ctx):
    """(kind, box, spacing): `exact` = dyadic box and spacing (float arithmetic is exact: correspondence with the
    model AND the specification), `decimal` = specification only"""
    rng = ctx.rng
    cases = []
    # every (edge, spacing) pair of the one-dimensional domain, on each axis in turn (the two other axes have
    # a single point): exact multiples, edge < spacing, edge = spacing included -- exhaustive
    for n, (edge, s) in enumerate((e, s) for s in GRID_SPACINGS for e in GRID_EDGES):
        box = [s / 2, s / 2, s / 2]
        box[n % 3] = edge
        cases.append(("exact", box, s, "1d-exhaustive"))
    for _ in range(ctx.budget(40, 400)):
        s = rng.choice(GRID_SPACINGS)
        box = [rng.choice(GRID_EDGES) for _ in range(3)]
        if rng.random() < 0.5:
            box[rng.randrange(3)] = s * rng.randint(1, 6)          # an exact multiple of the spacing
        while (box[0] / s + 1) * (box[1] / s + 1) * (box[2] / s + 1) > 1500:
            box[rng.randrange(3)] = s
        cases.append(("exact", box, s, "3d-random"))
    for b, s in GRID_DECIMAL:
        cases.append(("decimal", [b, s, s], s, "decimal"))
        cases.append(("decimal", [s, b, b], s, "decimal"))
    for _ in range(ctx.budget(20, 300)):
        s = rng.choice([0.1, 0.2, 0.3, 0.6, 0.7, 0.9, 1.1, 1.3])
        box = [round(s * rng.randint(1, 9), 10) if rng.random() < 0.7 else round(rng.uniform(0.3, 4.0), 2)
               for _ in range(3)]
        while (box[0] / s + 2) * (box[1] / s + 2) * (box[2] / s + 2) > 1500:
            box[rng.randrange(3)] = s
        cases.append(("decimal", box, s, "decimal"))
    return cases


def run_grid(ctx, cases):
    """stream `start-grid`: the default start grid of the real BuildSystem vs `Coords.startGrid`, and
    `Coords.specGrid` (every point in [0, box) in every dimension, grid not empty) on the real grid"""
    done, reqs = [], []
    for kind, box, s, sub in cases:
        replay = dict(kind="grid", grid_kind=kind, box=[rat_str(x) for x in box], spacing=rat_str(s), sub=sub)
        try:
            with common.time_limit(20):
                points, top_box = real_grid(box, s)
        except Exception as err:  # pylint: disable=broad-except
            ctx.oracle_fail("start-grid-raised", "BuildSystem.__init__ raised %s: %s for box %s spacing %s"
                            % (type(err).__name__, err, [float(x) for x in box], float(s)), replay)
            continue
        done.append((kind, box, s, sub, replay, points, top_box))
        reqs.append(dict(op="spec_grid", box=[rat_str(x) for x in box], points=points))
        if kind == "exact":
            reqs.append(dict(op="grid", box=[rat_str(x) for x in box], spacing=rat_str(s)))
    answers = ctx.driver.ask(reqs) if reqs else []
    pos = 0
    for kind, box, s, sub, replay, points, top_box in done:
        spec = answers[pos]
        pos += 1
        if kind == "exact":
            model = answers[pos]
            pos += 1
            ctx.correspond("start-grid", sorted(points), sorted(model["points"]), replay)
        ctx.correspond("start-grid-box", top_box, [rat_str(x) for x in box], replay)
        if not spec["holds"]:
            what = "is empty" if spec["empty"] else "holds the point %s outside [0, box)" % (
                [float(fractions.Fraction(x)) for x in spec["outside"][0]],)
            ctx.oracle_fail("start-grid-point-outside-box",
                            "the default start grid of BuildSystem for box %s, grid spacing %s %s (%d points): a "
                            "molecule started there is not inside the periodic box"
                            % ([float(x) for x in box], float(s), what, len(points)), replay)
        ratio = [fractions.Fraction(x) / fractions.Fraction(s) for x in box] if kind == "exact" else []
        ctx.case(("grid", kind, tuple(rat_str(x) for x in box), rat_str(s)), stream="start-grid:" + sub,
                 grid_edge=("multiple-of-spacing" if any(r.denominator == 1 for r in ratio) else
                            "below-spacing" if any(r < 1 for r in ratio) else "general") if ratio else "decimal",
                 grid_points=("1" if len(points) == 1 else "2-20" if len(points) <= 20 else "21-300"
                              if len(points) <= 300 else ">300"))
    if any(sub == "1d-exhaustive" for _, _, _, sub in cases):
        ctx.tally(**{"start_grid_1d(edge x spacing, %d pairs)" % (len(GRID_EDGES) * len(GRID_SPACINGS)): "exhaustive"})


# ------------------------------------------------------------------------------------------ running

def run_cases(ctx, cases, timeout=None):
    import time
    timeout = timeout or ctx.budget(8.0, 30.0)
    deadline = ctx.t0 + ctx.budget(60, 780)
    done = []
    # process history: all runs of this call happen in ONE directory under the same file names with changing
    # contents (a later run must not see anything of an earlier one); a failing input is reported together with
    # the runs that may have left something behind: the last run that read an input structure and the run
    # immediately before
    import shutil
    workdir = tempfile.mkdtemp(prefix="c03_hist_")
    last_input, last = None, None
    try:
        for case in cases:
            if time.time() > deadline:
                ctx.tally(skipped_for_time=True)
                continue
            case = {k: v for k, v in case.items() if k != "history"}
            res = real_run(case, timeout, workdir=workdir)
            history = []
            for prev in (last_input, last):
                if prev is not None and prev not in history and not prev["opts"].get("slab"):
                    history.append(prev)
            res["history"] = history
            done.append((case, res))
            last = case
            if "input_kind" in case["opts"]:
                last_input = case
    finally:
        shutil.rmtree(workdir, ignore_errors=True)
    reqs = []
    for case, _res in done:
        reqs += model_requests(case)
    answers = ctx.driver.ask(reqs)
    box_reqs = [box_request(case, answers[3 * i + 2]) for i, (case, _res) in enumerate(done)]
    box_answers = ctx.driver.ask(box_reqs)
    for i, (case, res) in enumerate(done):
        judge(ctx, case, res, answers[3 * i:3 * i + 3], box_answers[i])


def corpus_cases():
    path = os.path.join(common.VERIF, "corpus", "C03")
    out = []
    if os.path.isdir(path):
        for name in sorted(os.listdir(path)):
            data = json.load(open(os.path.join(path, name)))
            out.append(data.get("input", data))
    return out


def run(ctx):
    import warnings
    warnings.filterwarnings("ignore", category=RuntimeWarning)
    ctx.extra["rule"] = RULE
    ctx.extra["trusted"] = [
        "float (x)**(1/3.) and round(x, 5): evaluated by the harness on the model's exact volume",
        "vermouth .gro writer/reader (fixed columns; resid and atom number printed modulo 100000)",
        "template generation, scipy L-BFGS-B in backmapping, numpy.random (a non-finite coordinate would be "
        "reported by the oracle; the proof models 'finite' as 'present')"]
    ctx.assumptions += [
        "supplied structures are complete per residue, inside the box and finite (what gen_coords accepts)",
        "runs that do not terminate within the time limit (box too small for the molecules) are counted, not judged",
        "C03_all_positioned uses C17_complete as a theorem (no hypothesis about the walk); its residue data satisfy "
        "what add_positions_from_file guarantees (C04_consume) and ignored molecules are completely supplied",
        "start-grid: numpy's mgrid has ceil((stop-start)/step) points start + i*step (numpy.lib.index_tricks.nd_grid); "
        "on dyadic inputs the model's exact arithmetic equals the float arithmetic"]
    ctx.extra["explanation"] = "level_note: partial — float cube root / rounding and optimiser finiteness are trusted"
    run_grid(ctx, grid_cases(ctx))
    cases = corpus_cases()
    cases += [gen_crowded(ctx.rng) for _ in range(ctx.budget(1, 2))]
    cases += [gen_interleaved(ctx.rng) for _ in range(ctx.budget(24, 300))]
    cases += [gen_giveup(ctx.rng) for _ in range(ctx.budget(10, 120))]
    cases += [gen_branched_retry(ctx.rng) for _ in range(ctx.budget(16, 200))]
    cases += [gen_case(ctx.rng, ctx.thorough) for _ in range(ctx.budget(100, 2100))]
    run_cases(ctx, cases)
    if not any(k == "status=ok" for k in ctx.dist):
        ctx.tie_broken("correspondence", "e2e:no-run-finished", "no gen_coords run finished")


def replay(ctx, data):
    import warnings
    warnings.filterwarnings("ignore", category=RuntimeWarning)
    if data.get("kind") == "no-failing-input-found":
        print("replay names obligations that no longer check:")
        for item in data.get("no_longer_checks", []):
            print("  ", item["name"], "-", item["detail"][:300])
        cases = [i["input"] for i in data.get("no_longer_checks", []) if i.get("input")]
    else:
        cases = [data.get("input") or data]
    grids = [c for c in cases if isinstance(c, dict) and c.get("kind") == "grid"]
    if grids:
        run_grid(ctx, [(c["grid_kind"], [fractions.Fraction(x) for x in c["box"]], fractions.Fraction(c["spacing"]),
                        c.get("sub", "replay")) for c in grids])
    todo = []
    for c in cases:
        if isinstance(c, dict) and "types" in c:
            todo += [h for h in c.get("history") or [] if isinstance(h, dict) and "types" in h] + [c]
    run_cases(ctx, todo, timeout=60.0)
    for b in ctx.broken:
        print("REPLAY-DISAGREES", b["name"], b["detail"][:400])
