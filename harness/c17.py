"""C17 — failed placements are rolled back completely; accepted ones never move.

Statement (properties.jsonl, fixed): "For every pattern of placement successes and failures, when the
random walk rewinds or a molecule attempt is abandoned every residue placed in the discarded part is
removed from the system before building continues, and residues are only ever grown from an already
positioned neighbour. Positions of previously accepted molecules are never changed, and when building
ends successfully every residue of every built molecule has exactly one position."

Implementation side: the real `BuildSystem.run_system` / `RandomWalk` / `NonBondEngine` on residue
graphs built as real `MetaMolecule`s (paths, stars, random trees, rings, random node keys and adjacency
orders, BFS and DFS search trees, with and without supplied residues, ignored molecule types), with the
two places where a placement is *decided* interposed inside this process by a scripted schedule:
`RandomWalk.update_positions` (success = `nonbond_matrix.add_positions(fresh lattice point, mol_idx,
current_node, start=False)`; failure = return False) and `RandomWalk._is_overlap` (the test of the first
residue at `start`).  Everything else (the loop, `_rewind`, `placed_nodes`, the retry of
`_handle_random_walk`, `_compose_system`, the engine) is the real code.

`BuildSystem._handle_random_walk` is additionally wrapped (observation only, optional) to record what every
call returns: stream `handle-returns` compares the list `(mol_idx, success)` with `Walk.runG`, the machine in
which the give-up branch `if step_count == self.maxiter` is spelled out (`C17_giveup_is_retry`,
`C17_giveup_never_skips`).  Besides the random small systems, EVERY schedule up to the tier's length is run on
seven fixed shapes (`fixed_systems`: chain, star, branched DFS tree, chain grown from a supplied middle residue,
ring, two molecules around an ignored one; rewind depth 1/2, BuildSystem.maxiter 0/1) -- tallied `exhaustive`.

Model side: `Walk.run` (lean/PolyplyVerif/Model/Walk.lean).  Correspondence: the contents of the real
engine (the residues with a finite position, read through `get_point`, with their coordinates) and the trial `(mol_idx, prev_node, current_node)`
at every trial, the final engine, `list(search_tree.edges)`.  Oracle: the specification predicates of
the model file (`specRollback`, `specGrownFromPositioned`, `specOthersFixed`, `specComplete`,
`specSuppliedKept`) evaluated by the Lean driver on the trace of the real code.
"""
import itertools
import json
import os
import random

# tiny arrays only: BLAS/OpenMP thread pools just oversubscribe the machine
for _var in ("OMP_NUM_THREADS", "OPENBLAS_NUM_THREADS", "MKL_NUM_THREADS"):
    os.environ.setdefault(_var, "1")
import numpy as np  # noqa: E402
import networkx as nx

import common

RULE = ("one case = (system of 1-4 molecules with residue graphs from {path, star, random tree, ring, ring with "
        "tails}, random node keys/adjacency order, BFS or DFS search tree, build/supplied split, optional "
        "ignored type, start nodes, nrewind, maxiter, schedule); schedules: exhaustive binary trees to the "
        "tier's depth on small systems, then random schedules (several failure rates, long failure runs) up to "
        "length 200; non-trivial = at least one failed trial consumed; distinct = (system, cfg, consumed schedule)")
TRUSTED = [
    "engine modelled as a map (mol_idx, residue) -> position; its KD-tree bookkeeping is C16",
    "outcome of a single placement trial (geometry, forces, random numbers) is an arbitrary Bool of the schedule",
    "networkx bfs_edges/dfs_edges/DiGraph.edges restated in Model/Walk.lean (bfsEdges, dfsEdges, treeEdges) and "
    "compared with list(search_tree.edges) of the real objects on every case",
    "BuildSystem.maxiter: the give-up branch of _handle_random_walk is MODELLED (Walk.stepG: step_count, return "
    "values) and proved to be the single transition of the machine for every maxiter (C17_giveup_is_retry); what "
    "stays trusted is that processor.nonbond_matrix and self.nonbond_matrix are one object (RandomWalk stores the "
    "reference) -- a divergence would show in the engine trace of the maxiter in {0, 1, 2} cases; the return values "
    "of _handle_random_walk are observed by wrapping the method (stream handle-returns; skipped and tallied when the "
    "method no longer exists)",
    "lowered-threshold runs: the literal of `position_trees[-1].n > 5000` in NonBondEngine.add_positions (located by "
    "the translator) is replaced in a copy of the code object on a harness-side subclass (threshold 0, 1, 2, 4), so "
    "that the new-tree branch is taken by small systems; everything else is the real byte code",
]

BOX = np.array([10.0, 10.0, 10.0])
SUPPLIED_BASE = 40000


def lattice(pid):
    """position identifier -> a point of a 40x40x40 lattice in the box (exact in double)"""
    pid = int(pid)
    return np.array([(pid % 40) * 0.25 + 0.125, ((pid // 40) % 40) * 0.25 + 0.125, (pid // 1600) * 0.25 + 0.125])


def point_id(point):
    if not np.all(np.isfinite(point)):
        return "inf"
    cell = (np.asarray(point) - 0.125) / 0.25
    idx = np.rint(cell)
    if not np.all(idx == cell) or np.any(idx < 0) or np.any(idx >= 40):
        return "off-lattice%s" % (tuple(float(x) for x in point),)
    return int(idx[0] + 40 * idx[1] + 1600 * idx[2])


class Exhausted(Exception):
    """the schedule has no entry left for the trial that is asked for"""


class Stuck(Exception):
    """attempts follow each other without a single trial (the real code would never return)"""


# ------------------------------------------------------------------------------------------------ real objects

def build_topology(case):
    from vermouth.forcefield import ForceField
    from polyply.src.topology import Topology
    from polyply.src.meta_molecule import MetaMolecule
    ff = ForceField("verif")
    top = Topology(ff)
    mols = []
    for spec in case["mols"]:
        graph = nx.Graph()
        for idx, node in enumerate(spec["nodes"]):
            graph.add_node(node, resname="R" + spec["name"], resid=idx + 1)
        for u, v in spec["edges"]:
            graph.add_edge(u, v)
        meta = MetaMolecule(graph, force_field=ff, mol_name=spec["name"])
        supplied = {n: p for n, p in spec["supplied"]}
        centre_only = set(spec.get("centre_only", []))
        for node in spec["nodes"]:
            meta.nodes[node]["build"] = node in spec["build"]
            # flags as add_positions_from_file sets them: atoms given (-c) -> backmap False,
            # centre only (-mc) -> backmap True, to be built -> backmap True
            meta.nodes[node]["backmap"] = (node in spec["build"]) or (node in centre_only) or (node not in supplied)
            if node in supplied:
                meta.nodes[node]["position"] = lattice(supplied[node])
        meta.dfs = bool(spec["dfs"])
        mols.append(meta)
        top.volumes["R" + spec["name"]] = 0.4
    top.molecules = mols
    # build-file distance restraints: BuildSystem.run_system (set_restraints) reads molecule.search_tree BEFORE
    # the walk of the molecule starts, i.e. the tree is computed and cached at that moment
    for idx, ref, target in case.get("restraints", []):
        top.distance_restraints[(case["mols"][idx]["name"], idx)][(ref, target)] = (1.0, 5.0)
    return top


def adjacency(meta):
    return [[int(n), [int(x) for x in meta.neighbors(n)]] for n in meta.nodes]


def snapshot(engine, top, ignore):
    """the residues that have a position (what the property talks about): `engine.get_point(mol_idx, node)`
    is finite; molecules the engine does not know (ignored ones) have none"""
    snap = []
    for idx, meta in enumerate(top.molecules):
        items = []
        for node in meta.nodes:
            try:
                point = engine.get_point(idx, node)
            except KeyError:
                continue
            if np.all(np.isfinite(point)):
                items.append([int(node), point_id(point)])
        snap.append([idx, items])
    return snap


def internal_miscount(engine):
    """Optional stream on the engine's internal bookkeeping, only where it is observable in the expected
    form: every residue with a finite row of the position table is listed exactly once in the index lists
    (`defined_idxs`) and — if present — is a key of `gndx_to_tree`; a residue without position is in neither.
    Returns (list of offending global indices, list of internal names that could not be observed)."""
    missing, bad = [], set()
    try:
        positions = np.asarray(engine.positions, dtype=float)
        finite = set(int(g) for g in np.where(np.all(np.isfinite(positions), axis=1))[0])
    except Exception:  # pylint: disable=broad-except
        return [], ["positions"]
    lists = getattr(engine, "defined_idxs", None)
    if isinstance(lists, list) and all(isinstance(l, (list, np.ndarray)) for l in lists):
        listed = {}
        for idxs in lists:
            for gndx in idxs:
                listed[int(gndx)] = listed.get(int(gndx), 0) + 1
        bad |= set(g for g in set(listed) | finite if listed.get(g, 0) != (1 if g in finite else 0))
    else:
        missing.append("defined_idxs")
    table = getattr(engine, "gndx_to_tree", None)
    if isinstance(table, dict):
        bad |= set(int(k) for k in table) ^ finite
    else:
        missing.append("gndx_to_tree")
    return sorted(bad), missing


def tree_mismatch(engine):
    """What the force / overlap queries see: the points held by the engine's KD-trees (`position_trees[*].data`)
    must be exactly the finite rows of the position table -- a residue that was removed must not stay in a
    search tree (it would still repel), a positioned one must be in one.  Returns None when equal or not
    observable in the expected form (then the second value is True), else a short description."""
    trees = getattr(engine, "position_trees", None)
    table = getattr(engine, "positions", None)
    if not isinstance(trees, list) or table is None:
        return None, True
    try:
        table = np.asarray(table, dtype=float)
        have = sorted(tuple(float(x) for x in row) for row in table if np.all(np.isfinite(row)))
        seen = []
        for tree in trees:
            data = np.asarray(tree.data, dtype=float).reshape(-1, 3)
            seen += [tuple(float(x) for x in row) for row in data]
        seen.sort()
    except Exception:  # pylint: disable=broad-except
        return None, True
    if seen == have:
        return None, False
    stale = [p for p in seen if p not in have]
    lost = [p for p in have if p not in seen]
    return "search trees hold %d point(s) the position table no longer has %s, lack %d positioned point(s) %s" % (
        len(stale), [point_id(np.array(p)) for p in stale[:4]], len(lost), [point_id(np.array(p)) for p in lost[:4]]), False


_LOWERED = {}


def lowered_engine_class(new_threshold):
    """The real NonBondEngine with the literal of `self.position_trees[-1].n > 5000` in `add_positions`
    replaced in a copy of the code object (harness-side subclass, /repo untouched), so that the branch that
    opens a new position tree for the first residue of a molecule is taken in small systems.  The literal is
    located by the translator (tables/walk.py, engTreeThreshold)."""
    if new_threshold in _LOWERED:
        return _LOWERED[new_threshold]
    import types
    _LOWERED[new_threshold] = None      # None = the literal cannot be located: the real threshold is used
    try:
        from tables import walk as walk_tables
        from polyply.src.nonbond_engine import NonBondEngine
        literal = walk_tables.extract()["engTreeThreshold"]
        func = NonBondEngine.add_positions
        code = func.__code__
        hits = [i for i, c in enumerate(code.co_consts) if type(c) is int and c == literal]
        if len(hits) == 1:
            consts = tuple(new_threshold if i == hits[0] else c for i, c in enumerate(code.co_consts))
            patched = types.FunctionType(code.replace(co_consts=consts), func.__globals__, func.__name__,
                                         func.__defaults__, func.__closure__)
            patched.__kwdefaults__ = func.__kwdefaults__
            _LOWERED[new_threshold] = type("NonBondEngineLowT", (NonBondEngine,), {"add_positions": patched})
    except Exception:  # pylint: disable=broad-except
        pass
    return _LOWERED[new_threshold]


class Recorder:
    def __init__(self, top, case):
        self.top, self.case = top, case
        self.sched = list(case["sched"])
        self.used = 0
        self.ctr = 0
        self.trace = []
        self.idle_attempts = 0
        self.notes = []
        self.returns = []          # [mol_idx, success] of every completed call of _handle_random_walk
        self.tree_problems = []    # (index of the trace entry, description): KD-tree contents vs position table
        self.trees_unobservable = False

    def at_trial(self, walker, trial):
        self.idle_attempts = 0
        self.trace.append(dict(trial=trial, eng=snapshot(walker.nonbond_matrix, self.top, self.case["ignore"])))
        problem, hidden = tree_mismatch(walker.nonbond_matrix)
        self.trees_unobservable = self.trees_unobservable or hidden
        if problem:
            self.tree_problems.append((len(self.trace) - 1, problem))
        if self.used >= len(self.sched):
            raise Exhausted()
        outcome = self.sched[self.used]
        self.used += 1
        return outcome


def run_real(case):
    """Run the real BuildSystem with the scripted schedule.  Returns the observed trace."""
    from polyply.src import random_walk, build_system
    top = build_topology(case)
    rec = Recorder(top, case)
    start_dict = {idx: spec["start"] for idx, spec in enumerate(case["mols"])}
    kwargs = {}
    if case["nrewind"] is not None:
        kwargs["nrewind"] = case["nrewind"]
    if case.get("bs_maxiter") is not None:
        kwargs["maxiter"] = case["bs_maxiter"]       # BuildSystem's bound on consecutive failed attempts
    builder = build_system.BuildSystem(top, density=None, start_dict=start_dict, box=BOX.copy(),
                                       grid=np.array([[5.0, 5.0, 5.0]]), ignore=list(case["ignore"]), **kwargs)
    engine_cls = None
    notes = []
    if case.get("tree_threshold") is not None:
        engine_cls = lowered_engine_class(case["tree_threshold"])
        if engine_cls is None:
            notes.append("tree_threshold_not_lowered")
    if case["maxiter"] is not None:
        # RandomWalk's own `maxiter` cannot be passed through BuildSystem's keyword of the same name
        builder.rwargs = dict(builder.rwargs, maxiter=case["maxiter"])

    def scripted_update(self, vector_bundle, current_node, prev_node):
        ok = rec.at_trial(self, [int(self.mol_idx), int(prev_node), int(current_node)])
        if ok:
            self.nonbond_matrix.add_positions(lattice(rec.ctr), self.mol_idx, current_node, start=False)
            rec.ctr += 1
            return True
        return False

    def scripted_overlap(self, point, node, nrexcl=1):
        ok = rec.at_trial(self, [int(self.mol_idx), None, int(node)])
        if ok:
            self.start = lattice(rec.ctr)
            rec.ctr += 1
            return False
        return True

    orig_run = random_walk.RandomWalk.run_molecule

    def counted_run(self, meta_molecule):
        rec.idle_attempts += 1
        if rec.idle_attempts > 3:
            raise Stuck()
        return orig_run(self, meta_molecule)

    # the calls of BuildSystem._handle_random_walk and what they return (observation only)
    handle_orig = getattr(build_system.BuildSystem, "_handle_random_walk", None)
    handle_seen = handle_orig is not None and callable(handle_orig)
    if handle_seen:
        def counted_handle(self, *args, **kwargs):
            ret = handle_orig(self, *args, **kwargs)
            try:
                idx = kwargs["mol_idx"] if "mol_idx" in kwargs else args[1]
                ok = ret[0] if isinstance(ret, tuple) else ret
                rec.returns.append([int(idx), bool(ok)])
            except Exception:  # pylint: disable=broad-except
                rec.returns.append(None)
            return ret
        build_system.BuildSystem._handle_random_walk = counted_handle
    saved = (random_walk.RandomWalk.update_positions, random_walk.RandomWalk._is_overlap,
             random_walk.RandomWalk.run_molecule)
    saved_engine = build_system.NonBondEngine
    if engine_cls is not None:
        build_system.NonBondEngine = engine_cls
    random_walk.RandomWalk.update_positions = scripted_update
    random_walk.RandomWalk._is_overlap = scripted_overlap
    random_walk.RandomWalk.run_molecule = counted_run
    result = dict(finished=False, stuck=False, error=None, miscounted=[])
    try:
        try:
            builder.run_system(top.molecules)
            result["finished"] = True
        except Exhausted:
            pass
        except Stuck:
            result["stuck"] = True
        except Exception as err:  # pylint: disable=broad-except
            result["error"] = "%s: %s" % (type(err).__name__, str(err)[:200])
    finally:
        (random_walk.RandomWalk.update_positions, random_walk.RandomWalk._is_overlap,
         random_walk.RandomWalk.run_molecule) = saved
        build_system.NonBondEngine = saved_engine
        if handle_seen:
            build_system.BuildSystem._handle_random_walk = handle_orig
    engine = builder.nonbond_matrix
    if result["finished"] or result["stuck"]:
        rec.trace.append(dict(trial=None, eng=snapshot(engine, top, case["ignore"])))
    # "exactly one position": position table vs the engine's index lists, where these are observable
    if engine is not None:
        try:
            result["miscounted"], unobservable = internal_miscount(engine)
        except Exception:  # pylint: disable=broad-except
            result["miscounted"], unobservable = [], ["engine internals"]
        if unobservable:
            notes.append("internal_state_not_observable")
    result["notes"] = notes
    # write-back of update_positions_in_molecules (only reached on success)
    writeback = None
    if result["finished"]:
        writeback = []
        for idx, meta in enumerate(top.molecules):
            items = []
            for node in meta.nodes:
                if "position" in meta.nodes[node]:
                    pid = point_id(meta.nodes[node]["position"])
                    if pid != "inf":
                        items.append([int(node), pid])
            writeback.append([idx, items])
    paths, firsts, adjs = [], [], []
    for meta in top.molecules:
        adjs.append(adjacency(meta))
        if meta.root is not None:
            paths.append([[int(u), int(v)] for u, v in meta.search_tree.edges])
            firsts.append(int(meta.root))
        else:
            paths.append(None)
            firsts.append(None)
    if engine is not None and (result["finished"] or result["stuck"]):
        problem, hidden = tree_mismatch(engine)
        rec.trees_unobservable = rec.trees_unobservable or hidden
        if problem:
            rec.tree_problems.append((len(rec.trace) - 1, problem))
    if rec.trees_unobservable:
        notes.append("search_trees_not_observable")
    result["tree_problems"] = rec.tree_problems
    returns = rec.returns if handle_seen and None not in rec.returns else None
    result.update(trace=rec.trace, used=rec.used, writeback=writeback, paths=paths, firsts=firsts, adjs=adjs,
                  returns=returns)
    return result


# ------------------------------------------------------------------------------------------------ requests

def mol_json(spec, adj, ignore, path=None, first=None):
    out = dict(nodes=spec["nodes"], adj=adj, start=spec["start"], dfs=bool(spec["dfs"]), build=sorted(spec["build"]),
               supplied=[list(x) for x in spec["supplied"]], ignored=spec["name"] in ignore)
    if path is not None:
        out["path"] = path
        out["first"] = first
    return out


def requests_for(case, real):
    run_req = dict(op="run", nrewind=case["nrewind"], maxiter=case["maxiter"], sched=case["sched"],
                   bs_maxiter=case.get("bs_maxiter"),
                   mols=[mol_json(s, a, case["ignore"]) for s, a in zip(case["mols"], real["adjs"])])
    spec_req = dict(op="spec", finished=bool(real["finished"]),
                    mols=[mol_json(s, a, case["ignore"], p, f)
                          for s, a, p, f in zip(case["mols"], real["adjs"], real["paths"], real["firsts"])],
                    trace=[dict(trial=t["trial"], eng=[[i, [x for x in items if isinstance(x[1], int)]] for i, items in t["eng"]])
                           for t in real["trace"]])
    return [run_req, spec_req]


def judge(ctx, case, real, run_ans, spec_ans):
    replay = case
    if not run_ans.get("ok") or not spec_ans.get("ok"):
        ctx.tie_broken("correspondence", "driver:C17", "driver error %s %s" % (run_ans, spec_ans), replay)
        return
    wf_ok = all(run_ans["wf"][i] for i in run_ans["work"])
    if case.get("stream") != "inconsistent-flags" and not wf_ok:
        # the theorems' hypothesis AllWF (Lean: Mol.wfCheck, sound by C17_wf_check) must hold for what the
        # generator feeds the oracle
        ctx.tie_broken("correspondence", "hypothesis:AllWF", "generated input is not well formed: %s" % run_ans["wf"], replay)
    model_trace = [dict(trial=t["trial"], eng=t["eng"]) for t in run_ans["trace"]]
    model_end = run_ans["trace"][-1]["phase"]
    consumed = len(model_trace) - 1
    impl_trace = real["trace"]
    # the model stops at done/stuck; the real run stops when the schedule is exhausted or at the end
    ctx.correspond("engine-trace", impl_trace, model_trace, replay)
    impl_end = ("error:" + real["error"]) if real["error"] else "done" if real["finished"] else "stuck" if real["stuck"] else "trial"
    ctx.correspond("end-state", impl_end, "trial" if model_end in ("start", "walk") else model_end, replay)
    # the calls of _handle_random_walk: (mol_idx, success) of every call that returned, vs Walk.runG
    if real.get("returns") is None:
        ctx.tally(handle_returns="not observable")
    elif not real["stuck"] and not real["error"] and model_end != "stuck" and "returns" in run_ans:
        ctx.correspond("handle-returns", real["returns"], [list(r) for r in run_ans["returns"]], replay)
        if any(not ok for _, ok in real["returns"]):
            ctx.tally(handle_gave_up=True)
    for idx, (path, first) in enumerate(zip(real["paths"], real["firsts"])):
        if path is not None:
            ctx.correspond("search-tree-edges", dict(first=first, path=path),
                           dict(first=run_ans["firsts"][idx], path=run_ans["paths"][idx]), replay)
    if real["finished"]:
        # ignored molecules are not part of the engine: their `position` attributes stay what was supplied
        expect = []
        for (i, items), spec in zip(model_trace[-1]["eng"], case["mols"]):
            if spec["name"] in case["ignore"]:
                sup = dict((n, p) for n, p in spec["supplied"])
                items = [[n, sup[n]] for n in spec["nodes"] if n in sup]
            expect.append([i, items])
        ctx.correspond("write-back", real["writeback"], expect, replay)
    # ---- oracle: the specification evaluated on the real trace
    if case.get("stream") == "inconsistent-flags":
        ctx.case(None, stream="inconsistent-flags", end=impl_end.split(":")[0])
        return
    if real["error"]:
        ctx.oracle_fail("build-crashed", "run_system raised %s with schedule %s" % (real["error"], case["sched"][:real["used"]]), replay)
    for name, idx in spec_ans["failures"]:
        state = impl_trace[idx] if idx < len(impl_trace) else None
        ctx.oracle_fail(name, "%s at trial %d of schedule %s (nrewind=%s): state %s"
                        % (name, idx, _bits(case["sched"][:real["used"]]), case["nrewind"], json.dumps(state)[:300]), replay)
    for idx, text in real.get("tree_problems", [])[:1]:
        ctx.oracle_fail("removed-residue-still-in-search-tree", "at trial %d of schedule %s (nrewind=%s, bs_maxiter=%s): %s; "
                        "state %s" % (idx, _bits(case["sched"][:real["used"]]), case["nrewind"], case.get("bs_maxiter"), text,
                                      json.dumps(impl_trace[idx] if idx < len(impl_trace) else None)[:200]), replay)
    if real["miscounted"] and not real["error"]:
        ctx.oracle_fail("residue-not-listed-exactly-once", "engine index lists hold the global indices %s not exactly "
                        "once after schedule %s" % (real["miscounted"][:10], _bits(case["sched"][:real["used"]])), replay)
    for t in impl_trace:
        for _, items in t["eng"]:
            for node, pid in items:
                if not isinstance(pid, int):
                    ctx.oracle_fail("positioned-residue-without-finite-lattice-point",
                                    "engine lists residue %s as positioned with coordinates %s" % (node, pid), replay)
    fails = case["sched"][:real["used"]].count(False)
    key = None
    if fails:
        key = json.dumps([case["mols"], case["ignore"], case["nrewind"], case["maxiter"], case.get("bs_maxiter"),
                          case.get("tree_threshold"), _bits(case["sched"][:real["used"]])],
                         sort_keys=True)
    for note in real.get("notes", []):
        ctx.tally(**{note: True})
    ctx.traces += 1
    ctx.case(key, sample=dict(mols=[dict(n=len(s["nodes"]), edges=s["edges"], build=sorted(s["build"])) for s in case["mols"]],
                              nrewind=case["nrewind"], sched=_bits(case["sched"][:real["used"]]), end=impl_end),
             shape="+".join(sorted(set(s["shape"] for s in case["mols"]))), nmol=len(case["mols"]),
             nrewind=case["nrewind"], supplied=any(s["supplied"] for s in case["mols"]),
             ignored=bool(case["ignore"]), dfs=any(s["dfs"] for s in case["mols"]),
             consumed=_bucket(real["used"]), failures=_bucket(fails), end=impl_end.split(":")[0],
             bs_maxiter=case.get("bs_maxiter"), tree_threshold=case.get("tree_threshold"),
             restraints=bool(case.get("restraints")),
             attempts_abandoned=_bucket(_abandoned(impl_trace)),
             stream=case.get("stream", "?"))


def _abandoned(trace):
    """histogram only: how often a molecule came back to the first trial of an attempt (a start trial, or
    the first walk trial the molecule ever had) right after another trial of the same molecule"""
    count, prev, first = 0, None, {}
    for state in trace:
        trial = state["trial"]
        if trial is None:
            continue
        key = tuple(trial)
        first.setdefault(trial[0], key)
        if prev is not None and prev[0] == trial[0] and key == first[trial[0]]:
            count += 1
        prev = trial
    return count


def _bits(sched):
    return "".join("1" if b else "0" for b in sched)


def _bucket(n):
    return "0" if n == 0 else "1-3" if n <= 3 else "4-12" if n <= 12 else "13-50" if n <= 50 else ">50"


# ------------------------------------------------------------------------------------------------ generators

def gen_graph(rng, shape, n):
    """residue graph: node keys, edge insertion order"""
    keys = list(range(n))
    if rng.random() < 0.4:
        keys = rng.sample(range(0, 3 * n + 3), n)
    if rng.random() < 0.5:
        rng.shuffle(keys)
    edges = []
    if shape == "path":
        edges = [(i, i + 1) for i in range(n - 1)]
    elif shape == "star":
        edges = [(0, i) for i in range(1, n)]
    elif shape == "tree":
        edges = [(rng.randrange(i), i) for i in range(1, n)]
    elif shape == "ring":
        edges = [(i, i + 1) for i in range(n - 1)] + ([(n - 1, 0)] if n >= 3 else [])
    elif shape == "ringtail":
        m = max(3, n // 2)
        m = min(m, n)
        edges = [(i, i + 1) for i in range(m - 1)] + ([(m - 1, 0)] if m >= 3 else [])
        edges += [(rng.randrange(i), i) for i in range(m, n)]
    if rng.random() < 0.5:
        rng.shuffle(edges)
    edges = [(keys[u], keys[v]) if rng.random() < 0.5 else (keys[v], keys[u]) for u, v in edges]
    nodes = list(keys)
    if rng.random() < 0.3:
        rng.shuffle(nodes)
    return nodes, [list(e) for e in edges]


def gen_mol(rng, name, shape, n, supplied_mode, sid):
    nodes, edges = gen_graph(rng, shape, n)
    if supplied_mode == "none":
        sup_nodes = []
    elif supplied_mode == "all":
        sup_nodes = list(nodes)
    elif supplied_mode == "prefix":
        sup_nodes = nodes[:rng.randint(1, max(1, n - 1))]
    else:
        sup_nodes = [x for x in nodes if rng.random() < 0.35]
    supplied = []
    for node in sup_nodes:
        supplied.append([node, SUPPLIED_BASE + sid[0]])
        sid[0] += 1
    build = [x for x in nodes if x not in sup_nodes]
    start = None
    if rng.random() < 0.35:
        start = rng.choice(nodes)
    roll = rng.random()
    centre_only = list(sup_nodes) if roll < 0.3 else [] if roll < 0.6 else [x for x in sup_nodes if rng.random() < 0.5]
    return dict(name=name, shape=shape, nodes=nodes, edges=edges, start=start, dfs=rng.random() < 0.3,
                build=build, supplied=supplied, centre_only=centre_only)


def gen_system(rng, max_mols, max_n, small=False):
    sid = [0]
    n_types = rng.randint(1, 3)
    shapes = ["path", "star", "tree", "ring", "ringtail"]
    nmol = rng.randint(1, max_mols)
    mols = []
    for idx in range(nmol):
        name = "T%d" % rng.randrange(n_types)
        n = rng.randint(1, max_n) if not small else rng.randint(1, min(5, max_n))
        mode = rng.choice(["none", "none", "random", "prefix", "all"])
        mols.append(gen_mol(rng, name, rng.choice(shapes), n, mode, sid))
    ignore = []
    if rng.random() < 0.3:
        # an ignored type must be fully supplied in the pipeline (its coordinates are written out
        # unchanged); the state machine itself does not care, so both variants are generated
        ign = "T%d" % rng.randrange(n_types)
        if any(m["name"] != ign for m in mols):
            ignore = [ign]
    nrewind = rng.choice([None, 0, 1, 2, 3, 5, 7])
    maxiter = rng.choice([None, None, 1, 2, 3, 6])
    # BuildSystem.maxiter: after maxiter + 1 failed attempts in a row _handle_random_walk gives up and
    # _compose_system starts over with the same molecule; small values make that branch reachable
    bs_maxiter = rng.choice([None, None, 0, 1, 2])
    # size above which the first residue of a molecule opens a new position tree (None = the real 5000)
    tree_threshold = rng.choice([None, None, 0, 1, 2, 4])
    # distance restraints (first residue of the molecule -> another residue; the first residue is the root of
    # the search tree, hence an ancestor of every other one) on molecules without an explicit start residue
    restraints = []
    if rng.random() < 0.3:
        for idx, mol in enumerate(mols):
            if mol["name"] not in ignore and mol["start"] is None and len(mol["nodes"]) >= 2 and rng.random() < 0.6:
                restraints.append([idx, mol["nodes"][0], rng.choice(mol["nodes"][1:])])
    return dict(mols=mols, ignore=ignore, nrewind=nrewind, maxiter=maxiter, bs_maxiter=bs_maxiter,
                tree_threshold=tree_threshold, restraints=restraints)


def random_schedule(rng, length):
    mode = rng.random()
    if mode < 0.4:
        p = rng.choice([0.05, 0.15, 0.3, 0.5])
        return [rng.random() >= p for _ in range(length)]
    if mode < 0.7:
        # runs of failures between runs of successes
        out = []
        while len(out) < length:
            out += [True] * rng.randint(1, 8)
            out += [False] * rng.randint(1, rng.choice([2, 5, 90]))
        return out[:length]
    p = rng.choice([0.6, 0.8])
    return [rng.random() >= p for _ in range(length)]


def corpus_cases():
    path = os.path.join(common.VERIF, "corpus", "C17")
    out = []
    if os.path.isdir(path):
        for name in sorted(os.listdir(path)):
            data = json.load(open(os.path.join(path, name)))
            out.append(data.get("input", data))
    return out


def run_batch(ctx, pairs):
    """pairs: (case, real or None)"""
    cases = [c for c, _ in pairs]
    reals = [r if r is not None else run_real(c) for c, r in pairs]
    reqs = []
    for case, real in zip(cases, reals):
        reqs += requests_for(case, real)
    answers = ctx.driver.ask(reqs)
    for idx, (case, real) in enumerate(zip(cases, reals)):
        judge(ctx, case, real, answers[2 * idx], answers[2 * idx + 1])


def fixed_systems():
    """small systems whose schedules are enumerated completely (deterministic, independent of the seed)"""
    def mol(name, shape, nodes, edges, supplied=(), start=None, dfs=False):
        sup = [[n, SUPPLIED_BASE + 100 + k] for k, n in enumerate(supplied)]
        return dict(name=name, shape=shape, nodes=list(nodes), edges=[list(e) for e in edges], start=start, dfs=dfs,
                    build=[n for n in nodes if n not in supplied], supplied=sup, centre_only=[])

    def system(mols, nrewind, bs_maxiter, ignore=()):
        return dict(mols=mols, ignore=list(ignore), nrewind=nrewind, maxiter=None, bs_maxiter=bs_maxiter,
                    tree_threshold=None)
    chain = [(0, 1), (1, 2), (2, 3)]
    return [
        ("chain4,nrewind=1,bs_maxiter=0", system([mol("T0", "path", range(4), chain)], 1, 0)),
        ("chain4,nrewind=2,bs_maxiter=1", system([mol("T0", "path", range(4), chain)], 2, 1)),
        ("star4,nrewind=1,bs_maxiter=1", system([mol("T0", "star", range(4), [(0, 1), (0, 2), (0, 3)])], 1, 1)),
        ("tree5,dfs,nrewind=2,bs_maxiter=0",
         system([mol("T0", "tree", range(5), [(0, 1), (1, 2), (1, 3), (3, 4)], dfs=True)], 2, 0)),
        ("chain5,middle-supplied,start=2,nrewind=1,bs_maxiter=0",
         system([mol("T0", "path", range(5), chain + [(3, 4)], supplied=(2,), start=2)], 1, 0)),
        ("ring4,nrewind=2,bs_maxiter=1", system([mol("T0", "ring", range(4), chain + [(3, 0)])], 2, 1)),
        ("chain3+ignored+chain2,nrewind=1,bs_maxiter=0",
         system([mol("T0", "path", range(3), chain[:2]), mol("T1", "path", range(2), chain[:1], supplied=(0, 1)),
                 mol("T0", "path", range(3), chain[:2], supplied=(0,))], 1, 0, ignore=("T1",))),
    ]


def explore_exhaustive(system, depth, out):
    """Every outcome schedule of length <= depth that the REAL run distinguishes, each run once: run the
    all-success extension of a prefix, then flip every consumed position after the prefix to a failure."""
    stack = [[]]
    while stack:
        prefix = stack.pop()
        sched = prefix + [True] * (depth - len(prefix))
        case = dict(system, sched=sched, stream="exhaustive")
        real = run_real(case)
        case["sched"] = sched[:real["used"]] if (real["finished"] or real["stuck"] or real["error"]) else sched
        out.append((case, real))
        for pos in range(len(prefix), real["used"]):
            stack.append(sched[:pos] + [False])


def run(ctx):
    ctx.extra["rule"] = RULE
    ctx.extra["trusted"] = TRUSTED
    ctx.assumptions.append("inputs of the oracle streams have consistent flags (build = no supplied position), as "
                           "Topology.add_positions_from_file produces them (C04_consume); inconsistent flags are "
                           "generated only in the correspondence-only stream")
    rng = ctx.rng
    cases = [(dict(c, stream="corpus"), None) for c in corpus_cases()]
    # 1. exhaustive schedules on small systems
    depth = ctx.budget(7, 12)
    n_small = ctx.budget(6, 14)
    for k in range(n_small):
        system = gen_system(rng, max_mols=2, max_n=5, small=True)
        if k % 3 == 0:
            system["nrewind"] = rng.choice([0, 1, 2])
        explore_exhaustive(system, depth if k < 3 else depth - 2, cases)
    # 1b. EVERY schedule up to the tier's length on fixed small shapes (not sampled): chain, star, branched
    #     tree, chain grown from the middle with a supplied prefix, ring, two molecules; rewind depths 1 and 2,
    #     BuildSystem.maxiter 0 and 1 (so that the give-up branch is taken by every failed / every second attempt)
    fdepth = ctx.budget(7, 9)
    for name, system in fixed_systems():
        before = len(cases)
        explore_exhaustive(system, fdepth, cases)
        ctx.tally(**{"all_schedules(%s, length<=%d: %d runs)" % (name, fdepth, len(cases) - before): "exhaustive"})
    # 2. random schedules on larger systems
    for _ in range(ctx.budget(250, 2500)):
        system = gen_system(rng, max_mols=4, max_n=rng.choice([4, 8, 14, 25]))
        length = rng.choice([5, 12, 30, 80, 200])
        cases.append((dict(system, sched=random_schedule(rng, length), stream="random"), None))
    # 3. correspondence only: flags outside the theorems' hypothesis (a residue that is neither built nor
    #    supplied); the model must still follow the code (including the attempt that can never succeed)
    for _ in range(ctx.budget(30, 300)):
        system = gen_system(rng, max_mols=2, max_n=6)
        for spec in system["mols"]:
            for node in list(spec["build"]):
                if rng.random() < 0.3:
                    spec["build"].remove(node)
        cases.append((dict(system, sched=random_schedule(rng, 20), stream="inconsistent-flags"), None))
    for lo in range(0, len(cases), 400):
        run_batch(ctx, cases[lo:lo + 400])


def replay(ctx, data):
    inputs = []
    if data.get("kind") == "no-failing-input-found":
        print("replay names obligations that no longer check:")
        for item in data.get("no_longer_checks", []):
            print("  ", item["name"], "-", item["detail"][:300])
            if item.get("input"):
                inputs.append(item["input"])
    else:
        inputs.append(data.get("input") or data)
    run_batch(ctx, [(c, None) for c in inputs])
    for b in ctx.broken:
        print("REPLAY-DISAGREES", b["name"], b["detail"][:400])
