"""C12 — Sequence inputs produce exactly the specified residue graph.

Statement (properties.jsonl, fixed): "A -seq list, a .txt/.fasta/.ig/.json file or a gen_seq specification
yields a residue graph with exactly the stated residues (names after one-letter translation and 5'/3'
terminal naming), numbered consecutively from 1 in input order, connected linearly, as the macro tree
shape dictates, or as the connect records state, a circular .ig sequence being closed by an edge labelled
as circular. The JSON written by gen_seq is read back by gen_params as the same labelled graph."

Implementation side (all in-process, real code):
  * `gen_itp.split_seq_string` + `MetaMolecule.from_monomer_seq_linear`            (-seq lists)
  * `MetaMolecule.from_sequence_file` on real temp files .txt/.fasta/.ig/.json      (file formats)
  * `gen_seq.gen_seq(...)` writing a real .json (optionally with a real .itp for `-from_file`),
    then `MetaMolecule.from_sequence_file` on that file                             (gen_seq + round trip)
Model side: `Seq.fromSeqOption`, `Seq.fromSequenceFile`, `Seq.parseJson`, `Seq.genSeq` (mirror the code).
Oracle: `Seq.specLinear`, `Seq.specSeqFile` (with the one-letter tables written out in the specification,
not the repository's), `Seq.specGenSeq`, `Seq.specReadBack`, evaluated by the Lean driver on the abstract
input the generator started from; the implementation's output must equal it.  Malformed inputs: ok|reject.

Observable: the labelled graph — node keys, resid, resname (gen_seq: also seqid and labels), the edge set
with edge attributes, `max_resid`.  Node/adjacency order, exception types and log lines are not compared.
"""
import hashlib
import importlib
import json
import os
import pathlib
import random
import tempfile

import common

RULE = ("-seq lists (arbitrary names, counts 0..4), .txt (arbitrary names, every line breaking), .fasta/.ig "
        "over the DNA/RNA/protein alphabets (every length 0..12 quick / ..300 thorough, every line breaking, "
        "ig linear and circular), hand-made node-link .json (shuffled node order, with/without resid, edge "
        "attributes), gen_seq specifications (tree macros levels 0..4 x branching 0..3 with probability-1 "
        "mixes, -from_file blocks from a real .itp, macro sequences, connect records, terminal renamings, "
        "labels) written to a real file and read back; a lenient stream (blank lines, extra whitespace, "
        "second sequence, label naming no block) is compared with the model only; a malformed stream must be "
        "rejected.  Non-trivial = at least 2 residues; distinct = (kind, sha1 of the concrete input)")

WORDS = ["seq", "test", "human", "alpha", "my", "sample", "x7", "chain", "b", "of", "the"]
NAMES = ["PEO", "PS", "P3HT", "OH", "NH2", "A", "B", "C", "GLY", "DA5", "PMMA", "N1", "x", "Me", "C12E", "res_1", "a.b",
         "PEO+", "#1", "R*"]
NAME_CHARS = "ABCXYZabc0123+_#*."
LABELS = ["chiral", "tact", "color", "kind"]
VALUES = ["R", "S", "iso", "1", "red", "a_b"]
# the alphabets as the harness knows them (used to generate letters only; the oracle's tables live in Lean)
LETTERS = {"dna": "ACGT", "rna": "ACGT", "aa": "GAVCPLIMWFSTYNQKRHDEO"}
KEYWORD = {"dna": "DNA", "rna": "RNA", "aa": "PROTEIN"}


# ------------------------------------------------------------------------------------------------ canonical forms

def canon_attrs(data, skip=()):
    return sorted([str(k), str(v)] for k, v in data.items() if k not in skip)


def canon_meta(meta):
    """labelled residue graph of a MetaMolecule"""
    nodes = sorted([int(k), meta.nodes[k].get("resid"), meta.nodes[k].get("resname")] for k in meta.nodes)
    edges = sorted([min(u, v), max(u, v), canon_attrs(d)] for u, v, d in meta.edges(data=True))
    return dict(nodes=nodes, edges=edges, max_resid=int(meta.max_resid))


def canon_rgraph(j):
    nodes = sorted(list(n) for n in j["nodes"])
    edges = sorted([min(u, v), max(u, v), sorted(list(kv) for kv in attrs)] for u, v, attrs in j["edges"])
    return dict(nodes=nodes, edges=edges, max_resid=j["max_resid"])


SKIP = ("resname", "resid", "seqid", "build", "backmap", "id")


def canon_labelled(nodes, edges):
    """nodes: iterable (key, attrdict); edges: iterable (u, v, attrdict) -> labelled graph with all labels"""
    cn = sorted([k, d.get("resname"), d.get("resid"), d.get("seqid"), canon_attrs(d, SKIP)] for k, d in nodes)
    ce = sorted([min(u, v), max(u, v), canon_attrs(d)] for u, v, d in edges)
    return dict(nodes=cn, edges=ce)


def canon_sgraph(j):
    nodes = sorted([n[0], n[1], n[2], n[3], sorted(list(kv) for kv in n[4])] for n in j["nodes"])
    edges = sorted([min(u, v), max(u, v), sorted(list(kv) for kv in attrs)] for u, v, attrs in j["edges"])
    return dict(nodes=nodes, edges=edges)


def doc_graph(doc):
    """the labelled graph a node-link JSON document denotes (either edge key of networkx)"""
    nodes = [(rec["id"], {k: v for k, v in rec.items() if k != "id"}) for rec in doc["nodes"]]
    recs = doc["edges"] if "edges" in doc else doc["links"]
    edges = [(rec["source"], rec["target"], {k: v for k, v in rec.items() if k not in ("source", "target")})
             for rec in recs]
    return canon_labelled(nodes, edges)


# ------------------------------------------------------------------------------------------------ real code

def force_field():
    import vermouth.forcefield
    return vermouth.forcefield.ForceField(name="verif")


def impl_seq(items):
    from polyply.src.gen_itp import split_seq_string
    from polyply.src.meta_molecule import MetaMolecule
    monomers = split_seq_string(items)
    meta = MetaMolecule.from_monomer_seq_linear(force_field=force_field(), monomers=monomers, mol_name="mol")
    return dict(graph=canon_meta(meta))


def impl_file(ext, text):
    from polyply.src.meta_molecule import MetaMolecule
    with tempfile.TemporaryDirectory() as tmp:
        path = pathlib.Path(tmp) / ("s." + ext if ext is not None else "s")
        with open(path, "w") as handle:
            handle.write(text)
        meta = MetaMolecule.from_sequence_file(force_field(), path, "mol")
    return dict(graph=canon_meta(meta))


def impl_json(nodes, edges):
    """write a node-link document with the installed networkx, read it with the real reader"""
    import networkx as nx
    from networkx.readwrite import json_graph
    from polyply.src.meta_molecule import MetaMolecule
    graph = nx.Graph()
    for key, resname, resid, seqid, tags in nodes:
        attrs = dict(resname=resname)
        if resid is not None:
            attrs["resid"] = resid
        if seqid is not None:
            attrs["seqid"] = seqid
        attrs.update({k: v for k, v in tags})
        graph.add_node(key, **attrs)
    for u, v, attrs in edges:
        graph.add_edge(u, v, **{k: val for k, val in attrs})
    with tempfile.TemporaryDirectory() as tmp:
        path = pathlib.Path(tmp) / "g.json"
        with open(path, "w") as handle:
            json.dump(json_graph.node_link_data(graph), handle)
        meta = MetaMolecule.from_sequence_file(force_field(), path, "mol")
    labelled = canon_labelled(((k, dict(meta.nodes[k])) for k in meta.nodes), meta.edges(data=True))
    return dict(graph=canon_meta(meta), labelled=labelled)


def impl_genseq(args, itp):
    """the real gen_seq writing a real file; then the real reader of gen_params on that file"""
    module = importlib.import_module("polyply.src.gen_seq")
    from polyply.src.meta_molecule import MetaMolecule
    with tempfile.TemporaryDirectory() as tmp:
        inpath = []
        if itp is not None:
            ipath = pathlib.Path(tmp) / "blocks.itp"
            ipath.write_text(itp)
            inpath = [ipath]
        out = pathlib.Path(tmp) / "out.json"
        module.gen_seq("mol", out, args["seq"], inpath=inpath, macro_strings=list(args["macro_strings"]),
                       from_file=list(args["from_file"]) if args["from_file"] else None,
                       connects=list(args["connects"]), modifications=list(args["modifications"]),
                       tags=list(args["tags"]))
        with open(out) as handle:
            doc = json.load(handle)
        written = doc_graph(doc)
        try:
            meta = MetaMolecule.from_sequence_file(force_field(), out, "mol")
            read = dict(ok=True, graph=canon_meta(meta),
                        labelled=canon_labelled(((k, dict(meta.nodes[k])) for k in meta.nodes), meta.edges(data=True)))
        except Exception as err:  # pylint: disable=broad-except
            read = dict(ok=False, err=type(err).__name__ + ": " + str(err)[:200])
    return dict(written=written, read=read)


def run_impl(inp):
    try:
        if inp["kind"] == "seq":
            res = impl_seq(inp["items"])
        elif inp["kind"] == "file":
            res = impl_file(inp["ext"], inp["text"])
        elif inp["kind"] == "json":
            res = impl_json(inp["nodes"], inp["edges"])
        elif inp["kind"] == "genseq":
            res = impl_genseq(inp["args"], inp.get("itp"))
        else:
            raise common.DriverError("unknown case kind %r" % inp["kind"])
        res["ok"] = True
        return res
    except common.DriverError:
        raise
    except Exception as err:  # pylint: disable=broad-except
        return dict(ok=False, err=type(err).__name__ + ": " + str(err)[:200])


def model_request(inp):
    if inp["kind"] == "seq":
        return dict(op="seq", items=inp["items"])
    if inp["kind"] == "file":
        return dict(op="file", ext=inp["ext"] or "", text=inp["text"])
    if inp["kind"] == "json":
        return dict(op="json", nodes=inp["nodes"], edges=inp["edges"])
    args = inp["args"]
    return dict(op="genseq", from_file=inp.get("blocks", []), macro_strings=args["macro_strings"], seq=args["seq"],
                connects=args["connects"], modifications=args["modifications"], tags=args["tags"])


# ------------------------------------------------------------------------------------------------ generators

def rand_name(rng, forbid=""):
    while True:
        if rng.random() < 0.6:
            name = rng.choice(NAMES)
        else:
            name = "".join(rng.choice(NAME_CHARS) for _ in range(rng.randint(1, 5)))
        if not any(c in name for c in forbid):
            return name


def chunks(rng, seq, maxlen=None):
    """a random breaking of `seq` into non-empty pieces"""
    out, i = [], 0
    while i < len(seq):
        step = rng.randint(1, maxlen or max(1, len(seq)))
        out.append(seq[i:i + step])
        i += step
    return out


def case_seq(rng, pairs):
    items = ["%s:%d" % (n, c) for n, c in pairs]
    names = [n for n, c in pairs for _ in range(max(c, 0))]
    return dict(kind="seq", items=items, expect="ok", spec=dict(op="spec_linear", names=names), size=len(names))


def gen_seq_cases(ctx, rng):
    cases = []
    for n in (1, 2, 3):
        cases.append(case_seq(rng, [(rand_name(rng, ":"), n)]))
        cases.append(case_seq(rng, [(rand_name(rng, ":"), 1) for _ in range(n)]))
    cases.append(case_seq(rng, []))
    cases.append(case_seq(rng, [("A", 0), ("B", 2), ("C", 0)]))
    for _ in range(ctx.budget(100, 1000)):
        k = rng.randint(1, 6)
        hi = ctx.budget(4, 40) if rng.random() < 0.2 else 4
        cases.append(case_seq(rng, [(rand_name(rng, ":"), rng.randint(0, hi)) for _ in range(k)]))
    # malformed
    for items in (["PEO"], ["PEO:2:3"], ["PEO:x"], ["PEO:2", "OH"], ["PEO:"], ["A:1.5"]):
        cases.append(dict(kind="seq", items=items, expect="reject", spec=None, size=0, malformed="bad-seq-item"))
    return cases


def case_txt(rng, names, lenient=False):
    lines = [" ".join(c) for c in chunks(rng, names, 6)]
    if lenient and lines:
        # extra whitespace and blank lines: compared with the model only (outside the quantifier)
        i = rng.randrange(len(lines))
        lines[i] = rng.choice([" ", "\t", ""]) + lines[i] + rng.choice([" ", "  ", "\t"])
        if rng.random() < 0.5:
            lines.insert(rng.randrange(len(lines) + 1), "")
        if rng.random() < 0.3:
            lines[i] = lines[i].replace(" ", "  ", 1)
    text = "\n".join(lines)
    if lines and (lenient or rng.random() < 0.8):
        text += "\n"
    ext = rng.choice(["txt", "txt", "txt", "TXT", "Txt"])
    return dict(kind="file", ext=ext, text=text, fmt="txt", expect=None if lenient else "ok",
                spec=None if lenient else dict(op="spec_linear", names=names), size=len(names), lenient=lenient)


def fasta_text(rng, alpha, letters, lenient=False, extra_key=None):
    words = [rng.choice(WORDS) for _ in range(rng.randint(0, 3))]
    words.insert(rng.randint(0, len(words)), KEYWORD[alpha])
    if extra_key:
        words.insert(rng.randint(0, len(words)), extra_key)
    lines = [">" + " ".join(words)] + chunks(rng, letters, rng.choice([3, 10, 60]))
    if lenient and len(lines) > 1:
        i = rng.randrange(1, len(lines))
        lines[i] = lines[i] + rng.choice([" ", "\t", "  "])
        if rng.random() < 0.5:
            lines.insert(rng.randrange(1, len(lines) + 1), "")
        if rng.random() < 0.4:
            lines += [">second " + KEYWORD[alpha], "ACGT"]
    return "\n".join(lines) + ("\n" if rng.random() < 0.85 else "")


def ig_text(rng, alpha, letters, circular, lenient=False, extra_key=None, terminator=True):
    comments = ["; " + " ".join(rng.choice(WORDS) for _ in range(rng.randint(0, 3))) for _ in range(rng.randint(1, 3))]
    k = rng.randrange(len(comments))
    comments[k] = comments[k] + " " + KEYWORD[alpha]
    if extra_key:
        j = rng.randrange(len(comments))
        comments[j] = comments[j] + " " + extra_key
    title = rng.choice(["title", "mySeq", "seq x", "ACGT", "chain_A"])
    body = chunks(rng, letters, rng.choice([3, 10, 60]))
    ter = ("2" if circular else "1") if terminator else ""
    if body and rng.random() < 0.8:
        body[-1] += ter
    elif ter:
        body.append(ter)
    if lenient and body:
        i = rng.randrange(len(body))
        body[i] = body[i] + rng.choice([" ", " ; a remark", "\t"])
        if rng.random() < 0.5:
            body.insert(rng.randrange(len(body)), "")
        if rng.random() < 0.4:
            body += ["; DNA", "second", "ACGT1"]
    return "\n".join(comments + [title] + body) + ("\n" if rng.random() < 0.85 else "")


def case_letters(rng, fmt, alpha, letters, circular=False, lenient=False):
    if fmt == "fasta":
        text = fasta_text(rng, alpha, letters, lenient)
    else:
        text = ig_text(rng, alpha, letters, circular, lenient)
    ext = rng.choice([fmt, fmt, fmt, fmt.upper()])
    if not letters and alpha != "aa" and not lenient:
        # no nucleotide to carry the terminal names: must be refused
        return dict(kind="file", ext=ext, text=text, fmt=fmt, alpha=alpha, expect="reject", spec=None, size=0,
                    malformed="empty-nucleic")
    return dict(kind="file", ext=ext, text=text, fmt=fmt + ("-circular" if circular else ""), alpha=alpha,
                expect=None if lenient else "ok",
                spec=None if lenient else dict(op="spec_seqfile", alphabet=alpha, circular=circular, letters=letters),
                size=len(letters), lenient=lenient)


def gen_file_cases(ctx, rng):
    cases = []
    # exhaustive small shapes first
    for n in (0, 1, 2, 3, 4):
        cases.append(case_txt(rng, [rand_name(rng, " ") for _ in range(n)]))
        for alpha in ("dna", "rna", "aa"):
            letters = "".join(rng.choice(LETTERS[alpha]) for _ in range(n))
            cases.append(case_letters(rng, "fasta", alpha, letters))
            cases.append(case_letters(rng, "ig", alpha, letters))
            if n >= 1:
                cases.append(case_letters(rng, "ig", alpha, letters, circular=True))
    # every letter of every alphabet once
    for alpha in ("dna", "rna", "aa"):
        letters = list(LETTERS[alpha])
        rng.shuffle(letters)
        cases.append(case_letters(rng, rng.choice(["fasta", "ig"]), alpha, "".join(letters)))
    maxlen = ctx.budget(12, 300)
    for _ in range(ctx.budget(400, 5000)):
        n = rng.choice([rng.randint(1, 12), rng.randint(1, maxlen)])
        lenient = rng.random() < 0.15
        roll = rng.random()
        if roll < 0.25:
            cases.append(case_txt(rng, [rand_name(rng, " ") for _ in range(n)], lenient))
            continue
        alpha = rng.choice(["dna", "rna", "aa"])
        letters = "".join(rng.choice(LETTERS[alpha]) for _ in range(n))
        if roll < 0.55:
            cases.append(case_letters(rng, "fasta", alpha, letters, lenient=lenient))
        else:
            cases.append(case_letters(rng, "ig", alpha, letters, circular=rng.random() < 0.5, lenient=lenient))
    # lenient: mixed DNA + PROTEIN keyword (the code then translates by cascade): model only
    for _ in range(ctx.budget(4, 30)):
        letters = "".join(rng.choice("ACGTVLK") for _ in range(rng.randint(1, 8)))
        text = fasta_text(rng, "dna", letters, extra_key="PROTEIN") if rng.random() < 0.5 else \
            ig_text(rng, "dna", letters, rng.random() < 0.5, extra_key="PROTEIN")
        cases.append(dict(kind="file", ext="fasta" if text.startswith(">") else "ig", text=text, fmt="mixed-keywords",
                          expect=None, spec=None, size=len(letters), lenient=True))
    # malformed stream
    for _ in range(ctx.budget(80, 600)):
        alpha = rng.choice(["dna", "rna", "aa"])
        n = rng.randint(1, 10)
        letters = "".join(rng.choice(LETTERS[alpha]) for _ in range(n))
        what = rng.choice(["unknown-letter", "no-terminator", "dna-and-rna", "no-keyword", "unknown-extension",
                           "empty-nucleic"])
        fmt = rng.choice(["fasta", "ig"])
        ext = fmt
        if what == "unknown-letter":
            bad = rng.choice([c for c in "BJXZUacgt*-" + ("VLKE" if alpha != "aa" else "") if c not in LETTERS[alpha]])
            pos = rng.randint(0, n)
            letters = letters[:pos] + bad + letters[pos:]
            text = fasta_text(rng, alpha, letters) if fmt == "fasta" else ig_text(rng, alpha, letters, rng.random() < 0.5)
        elif what == "no-terminator":
            fmt = ext = "ig"
            text = ig_text(rng, alpha, letters, False, terminator=False)
        elif what == "dna-and-rna":
            other = "RNA" if alpha == "dna" else "DNA"
            alpha2 = alpha if alpha != "aa" else "dna"
            other = "RNA" if alpha2 == "dna" else "DNA"
            letters = "".join(rng.choice("ACGT") for _ in range(n))
            text = fasta_text(rng, alpha2, letters, extra_key=other) if fmt == "fasta" else \
                ig_text(rng, alpha2, letters, False, extra_key=other)
        elif what == "no-keyword":
            text = fasta_text(rng, alpha, letters) if fmt == "fasta" else ig_text(rng, alpha, letters, False)
            text = text.replace(KEYWORD[alpha], "sequence")
        elif what == "unknown-extension":
            text = fasta_text(rng, alpha, letters) if fmt == "fasta" else ig_text(rng, alpha, letters, False)
            ext = rng.choice(["seq", "dat", "fa", "tx", "jsn", None])
        else:
            alpha = rng.choice(["dna", "rna"])
            text = fasta_text(rng, alpha, "") if fmt == "fasta" else ig_text(rng, alpha, "", False)
        cases.append(dict(kind="file", ext=ext, text=text, fmt=fmt, expect="reject", spec=None, size=0, malformed=what))
    cases.append(dict(kind="file", ext="fasta", text="", fmt="fasta", expect="reject", spec=None, size=0,
                      malformed="empty-file"))
    return cases


def gen_json_cases(ctx, rng):
    cases = []
    for idx in range(ctx.budget(80, 800)):
        n = rng.randint(1, 4) if idx < 8 else rng.randint(1, ctx.budget(10, 60))
        with_resid = rng.random() < 0.4
        offset = rng.choice([0, 0, 0, 1, 5])
        keys = list(range(offset, offset + n))
        resids = [rng.randint(1, 3 * n) for _ in keys] if with_resid else [None] * n
        nodes = []
        for k, rid in zip(keys, resids):
            tags = [[rng.choice(LABELS), rng.choice(VALUES)]] if rng.random() < 0.3 else []
            seqid = rng.randint(0, 3) if rng.random() < 0.5 else None
            nodes.append([k, rand_name(rng), rid, seqid, tags])
        edges = []
        seen = set()
        for i in range(1, n):
            u = keys[rng.randrange(i)] if rng.random() < 0.5 else keys[i - 1]
            seen.add((u, keys[i]))
            edges.append([u, keys[i], [["linktype", "circle"]] if rng.random() < 0.1 else []])
        if n >= 3 and rng.random() < 0.3 and (keys[0], keys[-1]) not in seen:
            edges.append([keys[0], keys[-1], [["linktype", "circle"]]])
        in_sorted = [list(x) for x in nodes]
        rng.shuffle(nodes)
        rng.shuffle(edges)
        cases.append(dict(kind="json", nodes=nodes, edges=edges, expect="ok",
                          spec=dict(op="spec_readback", nodes=in_sorted, edges=edges), size=n, fmt="json"))
    return cases


def block_itp(name, names, edges):
    """a .itp moleculetype whose residue graph is (names, edges): two bonded atoms per residue"""
    lines = ["[ moleculetype ]", "%s 1" % name, "[ atoms ]"]
    for i, res in enumerate(names):
        lines.append("%d P1 %d %s A1 %d 0.0" % (2 * i + 1, i + 1, res, 2 * i + 1))
        lines.append("%d P1 %d %s A2 %d 0.0" % (2 * i + 2, i + 1, res, 2 * i + 2))
    lines.append("[ bonds ]")
    for i in range(len(names)):
        lines.append("%d %d 1 0.3 1000" % (2 * i + 1, 2 * i + 2))
    for u, v in edges:
        lines.append("%d %d 1 0.3 1000" % (2 * u + 2, 2 * v + 1))
    return "\n".join(lines) + "\n"


def one_prob(rng):
    return rng.choice(["1", "1.0", "1.", "1.00"])


def gen_genseq_case(ctx, rng, small=False, lenient=False):
    """structured specification -> CLI strings (+ .itp) and the abstract input of the oracle"""
    nmac = rng.randint(1, 3)
    tags_pool = ["A", "B", "C", "blk", "M1"]
    rng.shuffle(tags_pool)
    macros = {}
    macro_strings, from_file, blocks_ff, itp_parts = [], [], [], []
    for tag in tags_pool[:nmac]:
        if rng.random() < 0.25:
            k = rng.randint(1, 4)
            names = [rand_name(rng, " :,-;[]") for _ in range(k)]
            edges = [[rng.randrange(i), i] for i in range(1, k)]
            if k >= 3 and rng.random() < 0.3 and [0, k - 1] not in edges:
                edges.append([0, k - 1])
            mol = "MOL" + tag
            itp_parts.append(block_itp(mol, names, edges))
            from_file.append("%s:%s" % (tag, mol))
            blocks_ff.append([tag, names, edges])
            macros[tag] = dict(file=[names, edges], size=k)
        else:
            levels = rng.randint(1, 2 if small else 4) if rng.random() < 0.95 else 0
            bfact = rng.choice([1, 1, 2, 3, 0]) if not small else rng.choice([1, 2])
            if bfact == 3 and levels == 4:
                levels = 3
            res = rand_name(rng, " :,-")
            mix = [res + "-" + one_prob(rng)]
            for _ in range(rng.choice([0, 0, 1, 2])):
                mix.insert(rng.randint(0, len(mix)), rand_name(rng, " :,-") + "-" + rng.choice(["0", "0.0", "0."]))
            macro_strings.append("%s:%d:%d:%s" % (tag, levels, bfact, ",".join(mix)))
            size = sum(bfact ** i for i in range(levels))
            macros[tag] = dict(tree=[levels, bfact, res], size=size)
    seq = [rng.choice(list(macros)) for _ in range(rng.randint(0 if rng.random() < 0.05 else 1, 2 if small else 5))]
    sizes = [macros[t]["size"] for t in seq]
    spec_blocks = [{k: v for k, v in macros[t].items() if k != "size"} for t in seq]
    connects, spec_connects = [], []
    usable = [i for i, s in enumerate(sizes) if s > 0]
    if usable:
        for _ in range(rng.choice([0, 1, 1, 2, 3])):
            i, j = rng.choice(usable), rng.choice(usable)
            items = []
            for _ in range(rng.choice([1, 1, 2])):
                a, b = rng.randrange(sizes[i]), rng.randrange(sizes[j])
                if i == j and a == b and rng.random() < 0.8:
                    continue
                items.append("%d-%d" % (a, b) if rng.random() < 0.8 else "%d - %d" % (a, b))
                spec_connects.append([i, j, a, b])
            if items:
                connects.append("%d:%d:%s" % (i, j, ",".join(items)))
    mods, spec_mods = [], []
    for _ in range(rng.choice([0, 0, 1, 2])):
        if seq:
            s = rng.randrange(len(seq))
            new = rand_name(rng, ":")
            mods.append("%d:%s" % (s, new))
            spec_mods.append([s, new])
    tags, spec_tags = [], []
    for _ in range(rng.choice([0, 0, 1, 2])):
        if usable:
            s = rng.choice(usable)
            attr, val = rng.choice(LABELS), rng.choice(VALUES)
            mix = [val + "-" + one_prob(rng)]
            if rng.random() < 0.3:
                mix.insert(rng.randint(0, 1), rng.choice(VALUES) + "x-0.0")
            tags.append("%d:%s:%s" % (s, attr, ",".join(mix)))
            spec_tags.append([s, attr, val])
    expect = "ok"
    spec = dict(op="spec_genseq", blocks=spec_blocks, connects=spec_connects, mods=spec_mods, tags=spec_tags)
    if lenient:
        # a label naming no block labels every node in the code: compared with the model only
        tags.append("%d:%s:%s-1" % (len(seq) + rng.randint(0, 2), rng.choice(LABELS), rng.choice(VALUES)))
        expect, spec = None, None
    args = dict(seq=seq, macro_strings=macro_strings, from_file=from_file, connects=connects, modifications=mods,
                tags=tags)
    return dict(kind="genseq", args=args, itp="".join(itp_parts) if itp_parts else None, blocks=blocks_ff,
                expect=expect, spec=spec, size=sum(sizes), fmt="genseq", lenient=lenient,
                shape=dict(tree=any("tree" in b and b["tree"][1] >= 2 and b["tree"][0] >= 2 for b in spec_blocks),
                           file=bool(from_file), connects=len(spec_connects), mods=len(mods), tags=len(tags)))


def malform_genseq(rng, case):
    """break a valid gen_seq specification in one way the code must refuse"""
    args = json.loads(json.dumps(case["args"]))
    nseq = len(args["seq"])
    what = rng.choice(["unknown-macro", "connect-no-block", "connect-no-node", "connect-syntax", "macro-syntax",
                       "macro-nonnumeric", "seq-none", "zero-weights", "modf-syntax", "label-syntax"])
    if what == "unknown-macro":
        args["seq"].insert(rng.randint(0, nseq), "nope")
    elif what == "connect-no-block":
        args["connects"].append("%d:%d:0-0" % (nseq + rng.randint(0, 2), 0) if rng.random() < 0.5 else
                                "0:%d:0-0" % (nseq + rng.randint(0, 2)))
    elif what == "connect-no-node":
        args["connects"].append("0:0:%d-0" % (case["size"] + 50))
        if nseq == 0:
            what = "connect-no-block"
    elif what == "connect-syntax":
        args["connects"].append(rng.choice(["0:0", "0:0:1", "0:0:0-0-0", "0:0:0-0:1", "a:0:0-0", "0:0:x-0"]))
    elif what == "macro-syntax":
        args["macro_strings"].append(rng.choice(["Q:2:1", "Q:2", "Q", "Q:2:1:PEO", "Q:2:1:PEO-1-2"]))
    elif what == "macro-nonnumeric":
        args["macro_strings"].append(rng.choice(["Q:x:1:PEO-1", "Q:2:y:PEO-1", "Q:2:1:PEO-z"]))
    elif what == "seq-none":
        args["seq"] = None
    elif what == "zero-weights":
        args["macro_strings"].append("Q:2:1:PEO-0.0,PS-0")
        args["seq"].append("Q")
    elif what == "modf-syntax":
        args["modifications"].append(rng.choice(["0", "0:A:B", "x:A"]))
    else:
        args["tags"].append(rng.choice(["0:chiral", "0", "0:chiral:R", "x:chiral:R-1", "0:chiral:R-1:Z"]))
    return dict(kind="genseq", args=args, itp=case.get("itp"), blocks=case.get("blocks", []), expect="reject",
                spec=None, size=0, fmt="genseq", malformed=what)


def gen_genseq_cases(ctx, rng):
    cases = []
    # the shapes of the property: linear macro, tree macro, two blocks connected, renamed termini, label
    fixed = [
        dict(seq=["A"], macro_strings=["A:3:1:PEO-1.0"], from_file=[], connects=[], modifications=[], tags=[]),
        dict(seq=["A"], macro_strings=["A:3:2:N-1."], from_file=[], connects=[], modifications=["0:NT"], tags=[]),
        dict(seq=["A", "B"], macro_strings=["A:2:1:PS-1", "B:2:1:PEO-1"], from_file=[], connects=["0:1:1-0"],
             modifications=["1:OH"], tags=["0:chiral:R-1.0"]),
    ]
    specs = [
        dict(op="spec_genseq", blocks=[dict(tree=[3, 1, "PEO"])], connects=[], mods=[], tags=[]),
        dict(op="spec_genseq", blocks=[dict(tree=[3, 2, "N"])], connects=[], mods=[[0, "NT"]], tags=[]),
        dict(op="spec_genseq", blocks=[dict(tree=[2, 1, "PS"]), dict(tree=[2, 1, "PEO"])], connects=[[0, 1, 1, 0]],
             mods=[[1, "OH"]], tags=[[0, "chiral", "R"]]),
    ]
    for args, spec, size in zip(fixed, specs, (3, 7, 4)):
        cases.append(dict(kind="genseq", args=args, itp=None, blocks=[], expect="ok", spec=spec, size=size,
                          fmt="genseq", shape=dict(tree=False, file=False, connects=0, mods=0, tags=0)))
    for _ in range(ctx.budget(15, 60)):
        cases.append(gen_genseq_case(ctx, rng, small=True))
    for _ in range(ctx.budget(300, 4000)):
        cases.append(gen_genseq_case(ctx, rng, lenient=rng.random() < 0.08))
    for _ in range(ctx.budget(80, 600)):
        cases.append(malform_genseq(rng, gen_genseq_case(ctx, rng, small=True)))
    return cases


def tree_requests(ctx):
    """`nx.balanced_tree(r, h)` itself against the model's queue loop and the closed form of the specification"""
    import networkx as nx
    out = []
    top = ctx.budget(5, 7)
    for r in range(0, 5):
        for levels in range(0, top):
            if r ** max(levels - 1, 0) > 3000:
                continue
            graph = nx.balanced_tree(r, levels - 1)
            out.append((dict(op="tree", r=r, levels=levels),
                        dict(n=graph.number_of_nodes(), nodes=sorted(graph.nodes),
                             edges=sorted([min(u, v), max(u, v)] for u, v in graph.edges))))
    return out


# ------------------------------------------------------------------------------------------------ judging

def input_key(inp):
    blob = json.dumps({k: inp.get(k) for k in ("kind", "items", "ext", "text", "nodes", "edges", "args", "itp")},
                      sort_keys=True, default=str)
    return hashlib.sha1(blob.encode()).hexdigest()[:16]


def replay_of(inp):
    return {k: v for k, v in inp.items() if k not in ("size",)}


def judge(ctx, inp, impl, model, spec):
    kind = inp["kind"]
    replay = replay_of(inp)
    stream = kind if kind != "file" else "file-" + str(inp.get("fmt", "x")).split("-")[0]
    # ---- correspondence: model of the code vs the code
    if kind in ("seq", "file"):
        impl_obs = dict(ok=impl["ok"], graph=impl.get("graph"))
        model_obs = dict(ok=model["ok"], graph=canon_rgraph(model["graph"]) if model["ok"] else None)
    elif kind == "json":
        impl_obs = dict(ok=impl["ok"], graph=impl.get("graph"), labelled=impl.get("labelled"))
        model_obs = dict(ok=model["ok"], graph=canon_rgraph(model["graph"]) if model["ok"] else None,
                         labelled=fill_resid(canon_sgraph(model["sgraph"])) if model["ok"] else None)
    else:
        impl_obs = dict(ok=impl["ok"], written=impl.get("written"),
                        read=impl["read"].get("graph") if impl["ok"] and impl["read"]["ok"] else None)
        model_obs = dict(ok=model["ok"], written=canon_sgraph(model["sgraph"]) if model["ok"] else None,
                         read=canon_rgraph(model["graph"]) if model["ok"] else None)
    ctx.correspond(stream, impl_obs, model_obs, replay)
    # ---- oracle: the property, evaluated by the Lean specification
    expect = inp.get("expect")
    if expect == "reject":
        if impl["ok"]:
            ctx.oracle_fail("accepts-malformed-" + str(inp.get("malformed")),
                            "malformed input (%s) was accepted: %s" % (inp.get("malformed"), short(replay)), replay)
    elif expect == "ok":
        if spec is None or not spec.get("ok"):
            ctx.tie_broken("generator", "generator:" + stream, "the specification rejects a generated valid input: %s"
                           % short(replay), replay)
        elif not impl["ok"]:
            ctx.oracle_fail(stream + "-rejects-valid", "valid input rejected with %s: %s" % (impl["err"], short(replay)),
                            replay)
        elif kind in ("seq", "file"):
            want = canon_rgraph(spec["graph"])
            if impl["graph"] != want:
                ctx.oracle_fail(shape_of(inp, impl["graph"], want), "residue graph differs from the stated sequence: got %s want %s for %s"
                                % (short(impl["graph"]), short(want), short(replay)), replay)
        elif kind == "json":
            want = canon_rgraph(spec["graph"])
            want_l = fill_resid(canon_sgraph(spec["sgraph"]))
            if impl["graph"] != want or impl["labelled"] != want_l:
                ctx.oracle_fail("json-not-same-graph", "a node-link .json is not read as the labelled graph it denotes: got %s want %s"
                                % (short(impl["labelled"]), short(want_l)), replay)
        else:
            want_w = canon_sgraph(spec["sgraph"])
            want_r = canon_rgraph(spec["graph"])
            if impl["written"] != want_w:
                ctx.oracle_fail("genseq-wrong-graph", "gen_seq wrote %s, the specification states %s for %s"
                                % (short(impl["written"]), short(want_w), short(inp["args"])), replay)
            elif not impl["read"]["ok"]:
                ctx.oracle_fail("genseq-json-unreadable", "the .json written by gen_seq cannot be read back: %s (%s)"
                                % (impl["read"]["err"], short(inp["args"])), replay)
            elif strip_resid(impl["read"]["labelled"]) != impl["written"] or impl["read"]["graph"] != want_r:
                ctx.oracle_fail("genseq-roundtrip-differs", "gen_seq's .json is read back as %s, written was %s"
                                % (short(impl["read"]["labelled"]), short(impl["written"])), replay)
    size = inp.get("size", 0)
    key = (kind, input_key(inp)) if size >= 2 else None
    hist = dict(kind=stream, n=("0" if size == 0 else "1" if size == 1 else "2" if size == 2 else "3-12" if size <= 12 else ">12"),
                expect=str(expect))
    if inp.get("malformed"):
        hist["malformed"] = inp["malformed"]
    if inp.get("alpha"):
        hist["alphabet"] = inp["alpha"]
    if inp.get("fmt", "").endswith("circular"):
        hist["circular"] = True
    if inp.get("shape"):
        for k, v in inp["shape"].items():
            hist["genseq_" + k] = (v if isinstance(v, bool) else min(v, 3))
    ctx.case(key, sample=dict(input=short(replay, 400), impl=short(impl, 300)), **hist)


def shape_of(inp, got, want):
    fmt = str(inp.get("fmt", inp["kind"]))
    if not got["nodes"] and want["nodes"]:
        return fmt + "-empty-graph"
    if [n[2] for n in got["nodes"]] != [n[2] for n in want["nodes"]]:
        return fmt + "-wrong-names"
    if got["edges"] != want["edges"]:
        return fmt + "-wrong-edges"
    return fmt + "-wrong-numbering"


def fill_resid(labelled):
    """the MetaMolecule gives every node a resid (default key + 1)"""
    nodes = [[n[0], n[1], n[2] if n[2] is not None else n[0] + 1, n[3], n[4]] for n in labelled["nodes"]]
    return dict(nodes=nodes, edges=labelled["edges"])


def strip_resid(labelled):
    nodes = [[n[0], n[1], None, n[3], n[4]] for n in labelled["nodes"]]
    return dict(nodes=nodes, edges=labelled["edges"])


def short(obj, limit=700):
    text = json.dumps(obj, default=str)
    return text if len(text) <= limit else text[:limit] + "..."


def run_cases(ctx, inputs):
    impls = [run_impl(inp) for inp in inputs]
    reqs = []
    for inp in inputs:
        reqs.append(model_request(inp))
        if inp.get("spec"):
            reqs.append(inp["spec"])
    answers = ctx.driver.ask(reqs)
    pos = 0
    for inp, impl in zip(inputs, impls):
        model = answers[pos]
        pos += 1
        spec = None
        if inp.get("spec"):
            spec = answers[pos]
            pos += 1
        if not model.get("ok") and str(model.get("err", "")).startswith("protocol"):
            raise common.DriverError("driver protocol error: %s on %s" % (model.get("err"), short(inp)))
        judge(ctx, inp, impl, model, spec)


def run_trees(ctx):
    pairs = tree_requests(ctx)
    answers = ctx.driver.ask([req for req, _ in pairs])
    for (req, real), ans in zip(pairs, answers):
        model = dict(n=ans["n"], edges=sorted([min(u, v), max(u, v)] for u, v in ans["edges"]))
        ctx.correspond("balanced_tree", dict(n=real["n"], edges=real["edges"]), model, req)
        want = sorted([min(u, v), max(u, v)] for u, v in ans["spec_edges"])
        if req["r"] >= 1 and (real["edges"] != want or real["nodes"] != list(range(ans["n"]))):
            ctx.oracle_fail("tree-shape", "nx.balanced_tree(%d, %d) is not the tree j -> (j-1)//r" % (req["r"], req["levels"] - 1), req)
        ctx.case(("tree", req["r"], req["levels"]) if real["n"] >= 2 else None, kind="balanced_tree",
                 n=("0" if real["n"] == 0 else "1" if real["n"] == 1 else "2" if real["n"] == 2 else "3-12" if real["n"] <= 12 else ">12"))


def corpus_cases():
    path = os.path.join(common.VERIF, "corpus", "C12")
    out = []
    if os.path.isdir(path):
        for name in sorted(os.listdir(path)):
            if name.endswith(".json"):
                data = json.load(open(os.path.join(path, name)))
                out.append(data.get("input", data))
    return out


def run(ctx):
    ctx.extra["rule"] = RULE
    ctx.extra["trusted"] = [
        "Python str.strip/split/readlines, int(), float() on the generated ASCII inputs (modelled by Seq.strip/splitOn/readLines/parseNat?/parseWeight?)",
        "random.choices with exactly one positive weight (modelled as the certain choice)",
        "networkx balanced_tree / disjoint_union / degree / node_link_data / node_link_graph, json.dump/load (modelled; tied by the correspondence on the real write->read composition)",
        "vermouth make_residue_graph + polyply .itp reader for -from_file blocks (parameter: residue names in order, edges by position)",
    ]
    ctx.extra["explanation"] = ("theorems (all lengths, by induction): C12_tables, C12_linear_shape, C12_linear, C12_linear_parsers, "
                                "C12_linear_txt, C12_translate, C12_termini, C12_fasta, C12_circular, C12_circular_shape, C12_ig, C12_tree, "
                                "C12_tree_zero, C12_tree_size, C12_union_offsets, C12_connect, C12_connects, C12_genseq, "
                                "C12_json_roundtrip, C12_json_sorted; the oracle is the Lean specification (Seq.spec*) evaluated on "
                                "the abstract input the files / command lines were rendered from")
    ctx.assumptions += [
        "inputs are ASCII; .txt tokens contain no whitespace; integers in command strings are plain decimal digits",
        "residue mixes and labels have exactly one positive weight (random mixes are outside the quantifier)",
        "an empty circular .ig sequence is not generated (the code would address node -1)",
        "a single nucleotide gets both terminal suffixes (DA -> DA53): modelled as the code does, not judged a violation",
        "a -label naming no block labels every node in the code: compared with the model only, not judged",
    ]
    rng = ctx.rng
    inputs = corpus_cases()
    inputs += gen_seq_cases(ctx, rng)
    inputs += gen_file_cases(ctx, rng)
    inputs += gen_json_cases(ctx, rng)
    inputs += gen_genseq_cases(ctx, rng)
    run_trees(ctx)
    run_cases(ctx, inputs)
    # report the smallest failing input of every shape first
    ctx.failures.sort(key=lambda f: len(json.dumps(f["replay"], default=str)))


def replay(ctx, data):
    inp = data.get("input") or {}
    if data.get("kind") == "no-failing-input-found":
        print("replay names obligations that no longer check:")
        inputs = []
        for item in data.get("no_longer_checks", []):
            print("  ", item["name"], "-", item["detail"][:300])
            if item.get("input") and "kind" in item["input"]:
                inputs.append(item["input"])
    else:
        inputs = [inp]
    run_cases(ctx, [i for i in inputs if i.get("kind") in ("seq", "file", "json", "genseq")])
    for b in ctx.broken:
        print("REPLAY-DISAGREES", b["name"], b["detail"][:400])
