"""C12 — Sequence inputs produce exactly the specified residue graph.

Statement (properties.jsonl, fixed): "A -seq list, a .txt/.fasta/.ig/.json file or a gen_seq specification
yields a residue graph with exactly the stated residues (names after one-letter translation and 5'/3'
terminal naming), numbered consecutively from 1 in input order, connected linearly, as the macro tree
shape dictates, or as the connect records state, a circular .ig sequence being closed by an edge labelled
as circular. The JSON written by gen_seq is read back by gen_params as the same labelled graph."

Implementation side (all in-process, real code):
  * `gen_itp.split_seq_string` + `MetaMolecule.from_monomer_seq_linear`            (-seq lists)
  * `MetaMolecule.from_sequence_file` on real temp files .txt/.fasta/.ig/.json      (file formats)
  * `gen_seq.gen_seq(...)` writing a real .json (optionally with a real .itp for `-from_file`),
    then `MetaMolecule.from_sequence_file` on that file                             (gen_seq + round trip)
Model side: `Seq.fromSeqOption`, `Seq.fromSequenceFile`, `Seq.parseJson`, `Seq.genSeq` (mirror the code).
Oracle: `Seq.specLinear`, `Seq.specSeqFile` (with the one-letter tables written out in the specification,
not the repository's), `Seq.specGenSeq`, `Seq.specReadBack`, evaluated by the Lean driver on the abstract
input the generator started from; the implementation's output must equal it.  Malformed inputs: ok|reject.

Observable: the labelled graph — node keys, resid, resname (gen_seq: also seqid and labels), the edge set
with edge attributes, `max_resid`.  Node/adjacency order, exception types and log lines are not compared.

Round 5 (extension):
  * translator anchors `harness/tables/seq.py` -> `Generated/SeqTables.lean` (terminal suffixes, .ig terminators /
    comment sign, fasta marker, alphabet keywords, `MetaMolecule.parsers`, circular edge label, gen_seq separators,
    `seqid`, terminal degree); theorems `C12_anchor_*`, `C12_letters_vs_special`, `C12_dispatch` depend on them;
    the driver's `file` op dispatches through the generated suffix table (`Seq.fromSequenceFileAny`);
  * EXHAUSTIVE streams in the quick tier (tally `exhaustive=`): every one-letter code x position class (single /
    first / middle / last) x format (.fasta, .ig linear, .ig circular); every other ASCII letter and digit refused;
    every line breaking of lengths 0..4 x terminator x terminator placement x final newline x alphabet; every
    recognised file suffix in every capitalisation class + near misses (text and node-link content);
    `MetaMolecule.parsers` itself against `Seq.parserFor`; every keyword subset x arrangement through
    `_identify_residues`; every flag combination x every capital letter through `_parse_plain`; the
    (levels x branching) grid and a list of malformed definitions through `MacroString`;
  * DIRECT streams (the real private functions on generated inputs, model `Model/SeqExt.lean`):
    `gen_seq.MacroString(text)` + `.gen_graph()` (text rendered by the Lean specification side `Seq.renderMacro`,
    compared with Python's own formatting; oracle = round trip + tree shape), `gen_seq._add_edges` (arbitrary
    labelled graphs: interleaved blocks, nodes without seqid, existing edges, self loops; indices hit the block
    sizes exactly; oracle = accepted iff in range, exactly those edges added, nodes untouched),
    `gen_seq._apply_termini_modifications` + `_find_terminal_nodes`, `gen_seq._tag_nodes`,
    `simple_seq_parsers._identify_residues`, `_parse_plain`; `gen_seq(from_file=…)` with the `tag:name` strings
    handed to the model unparsed (`Seq.genSeqCli`), malformed / unknown block names refused.
"""
import hashlib
import importlib
import json
import os
import pathlib
import random
import tempfile

import common

RULE = ("-seq lists (arbitrary names, counts 0..4), .txt (arbitrary names, every line breaking), .fasta/.ig "
        "over the DNA/RNA/protein alphabets (every length 0..12 quick / ..300 thorough, every line breaking, "
        "ig linear and circular), hand-made node-link .json (shuffled node order, with/without resid, edge "
        "attributes), gen_seq specifications (tree macros levels 0..4 x branching 0..3 with probability-1 "
        "mixes, -from_file blocks from a real .itp, macro sequences, connect records, terminal renamings, "
        "labels) written to a real file and read back; a lenient stream (blank lines, extra whitespace, "
        "second sequence, label naming no block) is compared with the model only; a malformed stream must be "
        "rejected.  Non-trivial = at least 2 residues; distinct = (kind, sha1 of the concrete input)")

WORDS = ["seq", "test", "human", "alpha", "my", "sample", "x7", "chain", "b", "of", "the"]
NAMES = ["PEO", "PS", "P3HT", "OH", "NH2", "A", "B", "C", "GLY", "DA5", "PMMA", "N1", "x", "Me", "C12E", "res_1", "a.b",
         "PEO+", "#1", "R*"]
NAME_CHARS = "ABCXYZabc0123+_#*."
LABELS = ["chiral", "tact", "color", "kind"]
VALUES = ["R", "S", "iso", "1", "red", "a_b"]
# the alphabets as the harness knows them (used to generate letters only; the oracle's tables live in Lean)
LETTERS = {"dna": "ACGT", "rna": "ACGT", "aa": "GAVCPLIMWFSTYNQKRHDEO"}
KEYWORD = {"dna": "DNA", "rna": "RNA", "aa": "PROTEIN"}


# ------------------------------------------------------------------------------------------------ canonical forms

def canon_attrs(data, skip=()):
    return sorted([str(k), str(v)] for k, v in data.items() if k not in skip)


def canon_meta(meta):
    """labelled residue graph of a MetaMolecule"""
    nodes = sorted([int(k), meta.nodes[k].get("resid"), meta.nodes[k].get("resname")] for k in meta.nodes)
    edges = sorted([min(u, v), max(u, v), canon_attrs(d)] for u, v, d in meta.edges(data=True))
    return dict(nodes=nodes, edges=edges, max_resid=int(meta.max_resid))


def canon_rgraph(j):
    nodes = sorted(list(n) for n in j["nodes"])
    edges = sorted([min(u, v), max(u, v), sorted(list(kv) for kv in attrs)] for u, v, attrs in j["edges"])
    return dict(nodes=nodes, edges=edges, max_resid=j["max_resid"])


SKIP = ("resname", "resid", "seqid", "build", "backmap", "id")


def canon_labelled(nodes, edges):
    """nodes: iterable (key, attrdict); edges: iterable (u, v, attrdict) -> labelled graph with all labels"""
    cn = sorted([k, d.get("resname"), d.get("resid"), d.get("seqid"), canon_attrs(d, SKIP)] for k, d in nodes)
    ce = sorted([min(u, v), max(u, v), canon_attrs(d)] for u, v, d in edges)
    return dict(nodes=cn, edges=ce)


def canon_sgraph(j):
    nodes = sorted([n[0], n[1], n[2], n[3], sorted(list(kv) for kv in n[4])] for n in j["nodes"])
    edges = sorted([min(u, v), max(u, v), sorted(list(kv) for kv in attrs)] for u, v, attrs in j["edges"])
    return dict(nodes=nodes, edges=edges)


def doc_graph(doc):
    """the labelled graph a node-link JSON document denotes (either edge key of networkx)"""
    nodes = [(rec["id"], {k: v for k, v in rec.items() if k != "id"}) for rec in doc["nodes"]]
    recs = doc["edges"] if "edges" in doc else doc["links"]
    edges = [(rec["source"], rec["target"], {k: v for k, v in rec.items() if k not in ("source", "target")})
             for rec in recs]
    return canon_labelled(nodes, edges)


# ------------------------------------------------------------------------------------------------ real code

def force_field():
    import vermouth.forcefield
    return vermouth.forcefield.ForceField(name="verif")


def impl_seq(items):
    from polyply.src.gen_itp import split_seq_string
    from polyply.src.meta_molecule import MetaMolecule
    monomers = split_seq_string(items)
    meta = MetaMolecule.from_monomer_seq_linear(force_field=force_field(), monomers=monomers, mol_name="mol")
    return dict(graph=canon_meta(meta))


_WORKDIR = []


def workdir():
    """ONE scratch directory per run (creating and removing a directory per case dominated the wall time on a busy
    machine); every case overwrites / removes its own files"""
    if not _WORKDIR:
        _WORKDIR.append(tempfile.TemporaryDirectory(prefix="verif_c12_"))
    return pathlib.Path(_WORKDIR[0].name)


def fresh(path):
    if path.exists() or path.is_symlink():
        path.unlink()
    return path


def impl_file(ext, text):
    from polyply.src.meta_molecule import MetaMolecule
    path = fresh(workdir() / ("s." + ext if ext is not None else "s"))
    try:
        with open(path, "w") as handle:
            handle.write(text)
        meta = MetaMolecule.from_sequence_file(force_field(), path, "mol")
    finally:
        if path.exists():
            path.unlink()
    return dict(graph=canon_meta(meta))


def impl_json(nodes, edges, ext="json"):
    """write a node-link document with the installed networkx, read it with the real reader"""
    import networkx as nx
    from networkx.readwrite import json_graph
    from polyply.src.meta_molecule import MetaMolecule
    graph = nx.Graph()
    for key, resname, resid, seqid, tags in nodes:
        attrs = dict(resname=resname)
        if resid is not None:
            attrs["resid"] = resid
        if seqid is not None:
            attrs["seqid"] = seqid
        attrs.update({k: v for k, v in tags})
        graph.add_node(key, **attrs)
    for u, v, attrs in edges:
        graph.add_edge(u, v, **{k: val for k, val in attrs})
    path = fresh(workdir() / ("g." + ext))
    try:
        with open(path, "w") as handle:
            json.dump(json_graph.node_link_data(graph), handle)
        meta = MetaMolecule.from_sequence_file(force_field(), path, "mol")
    finally:
        if path.exists():
            path.unlink()
    labelled = canon_labelled(((k, dict(meta.nodes[k])) for k in meta.nodes), meta.edges(data=True))
    return dict(graph=canon_meta(meta), labelled=labelled)


def cli_cwd():
    """a working directory for command-level runs that holds DECOYS named like the files the command is given by
    absolute path (the program must not pick up what lies in the process working directory)"""
    cwd = workdir() / "cwd"
    if not cwd.exists():
        cwd.mkdir()
        (cwd / "out.json").write_text('{"decoy": true}')
        (cwd / "blocks.itp").write_text("[ moleculetype ]\nDECOY 1\n[ atoms ]\n1 P 1 DEC A 1 0.0\n")
        (cwd / "s.txt").write_text("DECOY DECOY\n")
        (cwd / "s.fasta").write_text(">DNA\nGGGG\n")
        (cwd / "s.ig").write_text("; DNA\nx\nGGGG1\n")
        (cwd / "out.itp").write_text("; decoy\n")
    return cwd


def run_cli(argv):
    import subprocess
    import sys
    proc = subprocess.run([sys.executable, os.path.join(common.REPO, "bin", "polyply")] + argv, cwd=str(cli_cwd()),
                          stdout=subprocess.PIPE, stderr=subprocess.STDOUT, text=True, timeout=300,
                          env=dict(os.environ, PYTHONPATH=common.REPO))
    if proc.returncode != 0:
        raise RuntimeError("polyply %s exited %s: %s" % (argv[0], proc.returncode, proc.stdout[-200:]))


def impl_genseq(args, itp, cli=False):
    """the real gen_seq writing a real file; then the real reader of gen_params on that file"""
    module = importlib.import_module("polyply.src.gen_seq")
    from polyply.src.meta_molecule import MetaMolecule
    tmp = workdir()
    out = fresh(tmp / "out.json")
    ipath = fresh(tmp / "blocks.itp")
    try:
        inpath = []
        if itp is not None:
            ipath.write_text(itp)
            inpath = [ipath]
        if cli:
            argv = ["gen_seq", "-name", "mol", "-o", str(out), "-seq"] + list(args["seq"])
            for flag, key in (("-from_string", "macro_strings"), ("-from_file", "from_file"), ("-connects", "connects"),
                              ("-modf_ter", "modifications"), ("-label", "tags")):
                if args[key]:
                    argv += [flag] + list(args[key])
            if inpath:
                argv += ["-f", str(ipath)]
            run_cli(argv)
        else:
            module.gen_seq("mol", out, args["seq"], inpath=inpath, macro_strings=list(args["macro_strings"]),
                           from_file=list(args["from_file"]) if args["from_file"] else None,
                           connects=list(args["connects"]), modifications=list(args["modifications"]),
                           tags=list(args["tags"]))
        with open(out) as handle:
            doc = json.load(handle)
        written = doc_graph(doc)
        try:
            meta = MetaMolecule.from_sequence_file(force_field(), out, "mol")
            read = dict(ok=True, graph=canon_meta(meta),
                        labelled=canon_labelled(((k, dict(meta.nodes[k])) for k in meta.nodes), meta.edges(data=True)))
        except Exception as err:  # pylint: disable=broad-except
            read = dict(ok=False, err=type(err).__name__ + ": " + str(err)[:200])
    finally:
        for path in (out, ipath):
            if path.exists():
                path.unlink()
    return dict(written=written, read=read)


def run_impl(inp):
    try:
        if inp["kind"] == "seq":
            res = impl_seq(inp["items"])
        elif inp["kind"] == "file":
            res = impl_file(inp["ext"], inp["text"])
        elif inp["kind"] == "json":
            res = impl_json(inp["nodes"], inp["edges"], inp.get("ext", "json"))
        elif inp["kind"] == "genseq":
            res = impl_genseq(inp["args"], inp.get("itp"), cli=inp.get("entry") == "cli")
        else:
            raise common.DriverError("unknown case kind %r" % inp["kind"])
        res["ok"] = True
        return res
    except common.DriverError:
        raise
    except Exception as err:  # pylint: disable=broad-except
        return dict(ok=False, err=type(err).__name__ + ": " + str(err)[:200])


def model_request(inp):
    if inp["kind"] == "seq":
        return dict(op="seq", items=inp["items"])
    if inp["kind"] == "file":
        return dict(op="file", ext=inp["ext"] or "", text=inp["text"])
    if inp["kind"] == "json":
        if "ext" in inp:
            return dict(op="file_doc", ext=inp["ext"], nodes=inp["nodes"], edges=inp["edges"])
        return dict(op="json", nodes=inp["nodes"], edges=inp["edges"])
    args = inp["args"]
    if "lib" in inp:
        # the -from_file strings go to the model unparsed (Seq.genSeqCli)
        return dict(op="genseq_cli", lib=inp["lib"], from_file=args["from_file"], macro_strings=args["macro_strings"],
                    seq=args["seq"], connects=args["connects"], modifications=args["modifications"], tags=args["tags"])
    return dict(op="genseq", from_file=inp.get("blocks", []), macro_strings=args["macro_strings"], seq=args["seq"],
                connects=args["connects"], modifications=args["modifications"], tags=args["tags"])


# ------------------------------------------------------------------------------------------------ generators

def rand_name(rng, forbid=""):
    while True:
        if rng.random() < 0.6:
            name = rng.choice(NAMES)
        else:
            name = "".join(rng.choice(NAME_CHARS) for _ in range(rng.randint(1, 5)))
        if not any(c in name for c in forbid):
            return name


def chunks(rng, seq, maxlen=None):
    """a random breaking of `seq` into non-empty pieces"""
    out, i = [], 0
    while i < len(seq):
        step = rng.randint(1, maxlen or max(1, len(seq)))
        out.append(seq[i:i + step])
        i += step
    return out


def case_seq(rng, pairs):
    items = ["%s:%d" % (n, c) for n, c in pairs]
    names = [n for n, c in pairs for _ in range(max(c, 0))]
    return dict(kind="seq", items=items, expect="ok", spec=dict(op="spec_linear", names=names), size=len(names))


def gen_seq_cases(ctx, rng):
    cases = []
    for n in (1, 2, 3):
        cases.append(case_seq(rng, [(rand_name(rng, ":"), n)]))
        cases.append(case_seq(rng, [(rand_name(rng, ":"), 1) for _ in range(n)]))
    cases.append(case_seq(rng, []))
    cases.append(case_seq(rng, [("A", 0), ("B", 2), ("C", 0)]))
    for _ in range(ctx.budget(100, 1000)):
        k = rng.randint(1, 6)
        hi = ctx.budget(4, 40) if rng.random() < 0.2 else 4
        cases.append(case_seq(rng, [(rand_name(rng, ":"), rng.randint(0, hi)) for _ in range(k)]))
    # malformed
    for items in (["PEO"], ["PEO:2:3"], ["PEO:x"], ["PEO:2", "OH"], ["PEO:"], ["A:1.5"]):
        cases.append(dict(kind="seq", items=items, expect="reject", spec=None, size=0, malformed="bad-seq-item"))
    return cases


def case_txt(rng, names, lenient=False):
    lines = [" ".join(c) for c in chunks(rng, names, 6)]
    if lenient and lines:
        # extra whitespace and blank lines: compared with the model only (outside the quantifier)
        i = rng.randrange(len(lines))
        lines[i] = rng.choice([" ", "\t", ""]) + lines[i] + rng.choice([" ", "  ", "\t"])
        if rng.random() < 0.5:
            lines.insert(rng.randrange(len(lines) + 1), "")
        if rng.random() < 0.3:
            lines[i] = lines[i].replace(" ", "  ", 1)
    text = "\n".join(lines)
    if lines and (lenient or rng.random() < 0.8):
        text += "\n"
    ext = rng.choice(["txt", "txt", "txt", "TXT", "Txt"])
    return dict(kind="file", ext=ext, text=text, fmt="txt", expect=None if lenient else "ok",
                spec=None if lenient else dict(op="spec_linear", names=names), size=len(names), lenient=lenient)


def fasta_text(rng, alpha, letters, lenient=False, extra_key=None):
    words = [rng.choice(WORDS) for _ in range(rng.randint(0, 3))]
    words.insert(rng.randint(0, len(words)), KEYWORD[alpha])
    if extra_key:
        words.insert(rng.randint(0, len(words)), extra_key)
    lines = [">" + " ".join(words)] + chunks(rng, letters, rng.choice([3, 10, 60]))
    if lenient and len(lines) > 1:
        i = rng.randrange(1, len(lines))
        lines[i] = lines[i] + rng.choice([" ", "\t", "  "])
        if rng.random() < 0.5:
            lines.insert(rng.randrange(1, len(lines) + 1), "")
        if rng.random() < 0.4:
            lines += [">second " + KEYWORD[alpha], "ACGT"]
    return "\n".join(lines) + ("\n" if rng.random() < 0.85 else "")


def ig_text(rng, alpha, letters, circular, lenient=False, extra_key=None, terminator=True):
    comments = ["; " + " ".join(rng.choice(WORDS) for _ in range(rng.randint(0, 3))) for _ in range(rng.randint(1, 3))]
    k = rng.randrange(len(comments))
    comments[k] = comments[k] + " " + KEYWORD[alpha]
    if extra_key:
        j = rng.randrange(len(comments))
        comments[j] = comments[j] + " " + extra_key
    title = rng.choice(["title", "mySeq", "seq x", "ACGT", "chain_A"])
    body = chunks(rng, letters, rng.choice([3, 10, 60]))
    ter = ("2" if circular else "1") if terminator else ""
    if body and rng.random() < 0.8:
        body[-1] += ter
    elif ter:
        body.append(ter)
    if lenient and body:
        i = rng.randrange(len(body))
        body[i] = body[i] + rng.choice([" ", " ; a remark", "\t"])
        if rng.random() < 0.5:
            body.insert(rng.randrange(len(body)), "")
        if rng.random() < 0.4:
            body += ["; DNA", "second", "ACGT1"]
    return "\n".join(comments + [title] + body) + ("\n" if rng.random() < 0.85 else "")


def case_letters(rng, fmt, alpha, letters, circular=False, lenient=False):
    if fmt == "fasta":
        text = fasta_text(rng, alpha, letters, lenient)
    else:
        text = ig_text(rng, alpha, letters, circular, lenient)
    ext = rng.choice([fmt, fmt, fmt, fmt.upper()])
    if not letters and alpha != "aa" and not lenient:
        # no nucleotide to carry the terminal names: must be refused
        return dict(kind="file", ext=ext, text=text, fmt=fmt, alpha=alpha, expect="reject", spec=None, size=0,
                    malformed="empty-nucleic")
    return dict(kind="file", ext=ext, text=text, fmt=fmt + ("-circular" if circular else ""), alpha=alpha,
                expect=None if lenient else "ok",
                spec=None if lenient else dict(op="spec_seqfile", alphabet=alpha, circular=circular, letters=letters),
                size=len(letters), lenient=lenient)


def gen_file_cases(ctx, rng):
    cases = []
    # exhaustive small shapes first
    for n in (0, 1, 2, 3, 4):
        cases.append(case_txt(rng, [rand_name(rng, " ") for _ in range(n)]))
        for alpha in ("dna", "rna", "aa"):
            letters = "".join(rng.choice(LETTERS[alpha]) for _ in range(n))
            cases.append(case_letters(rng, "fasta", alpha, letters))
            cases.append(case_letters(rng, "ig", alpha, letters))
            if n >= 1:
                cases.append(case_letters(rng, "ig", alpha, letters, circular=True))
    # every letter of every alphabet once
    for alpha in ("dna", "rna", "aa"):
        letters = list(LETTERS[alpha])
        rng.shuffle(letters)
        cases.append(case_letters(rng, rng.choice(["fasta", "ig"]), alpha, "".join(letters)))
    maxlen = ctx.budget(12, 300)
    for _ in range(ctx.budget(400, 5000)):
        n = rng.choice([rng.randint(1, 12), rng.randint(1, maxlen)])
        lenient = rng.random() < 0.15
        roll = rng.random()
        if roll < 0.25:
            cases.append(case_txt(rng, [rand_name(rng, " ") for _ in range(n)], lenient))
            continue
        alpha = rng.choice(["dna", "rna", "aa"])
        letters = "".join(rng.choice(LETTERS[alpha]) for _ in range(n))
        if roll < 0.55:
            cases.append(case_letters(rng, "fasta", alpha, letters, lenient=lenient))
        else:
            cases.append(case_letters(rng, "ig", alpha, letters, circular=rng.random() < 0.5, lenient=lenient))
    # lenient: mixed DNA + PROTEIN keyword (the code then translates by cascade): model only
    for _ in range(ctx.budget(4, 30)):
        letters = "".join(rng.choice("ACGTVLK") for _ in range(rng.randint(1, 8)))
        text = fasta_text(rng, "dna", letters, extra_key="PROTEIN") if rng.random() < 0.5 else \
            ig_text(rng, "dna", letters, rng.random() < 0.5, extra_key="PROTEIN")
        cases.append(dict(kind="file", ext="fasta" if text.startswith(">") else "ig", text=text, fmt="mixed-keywords",
                          expect=None, spec=None, size=len(letters), lenient=True))
    # malformed stream
    for _ in range(ctx.budget(80, 600)):
        alpha = rng.choice(["dna", "rna", "aa"])
        n = rng.randint(1, 10)
        letters = "".join(rng.choice(LETTERS[alpha]) for _ in range(n))
        what = rng.choice(["unknown-letter", "no-terminator", "dna-and-rna", "no-keyword", "unknown-extension",
                           "empty-nucleic"])
        fmt = rng.choice(["fasta", "ig"])
        ext = fmt
        if what == "unknown-letter":
            bad = rng.choice([c for c in "BJXZUacgt*-" + ("VLKE" if alpha != "aa" else "") if c not in LETTERS[alpha]])
            pos = rng.randint(0, n)
            letters = letters[:pos] + bad + letters[pos:]
            text = fasta_text(rng, alpha, letters) if fmt == "fasta" else ig_text(rng, alpha, letters, rng.random() < 0.5)
        elif what == "no-terminator":
            fmt = ext = "ig"
            text = ig_text(rng, alpha, letters, False, terminator=False)
        elif what == "dna-and-rna":
            other = "RNA" if alpha == "dna" else "DNA"
            alpha2 = alpha if alpha != "aa" else "dna"
            other = "RNA" if alpha2 == "dna" else "DNA"
            letters = "".join(rng.choice("ACGT") for _ in range(n))
            text = fasta_text(rng, alpha2, letters, extra_key=other) if fmt == "fasta" else \
                ig_text(rng, alpha2, letters, False, extra_key=other)
        elif what == "no-keyword":
            text = fasta_text(rng, alpha, letters) if fmt == "fasta" else ig_text(rng, alpha, letters, False)
            text = text.replace(KEYWORD[alpha], "sequence")
        elif what == "unknown-extension":
            text = fasta_text(rng, alpha, letters) if fmt == "fasta" else ig_text(rng, alpha, letters, False)
            ext = rng.choice(["seq", "dat", "fa", "tx", "jsn", None])
        else:
            alpha = rng.choice(["dna", "rna"])
            text = fasta_text(rng, alpha, "") if fmt == "fasta" else ig_text(rng, alpha, "", False)
        cases.append(dict(kind="file", ext=ext, text=text, fmt=fmt, expect="reject", spec=None, size=0, malformed=what))
    cases.append(dict(kind="file", ext="fasta", text="", fmt="fasta", expect="reject", spec=None, size=0,
                      malformed="empty-file"))
    return cases


def gen_json_cases(ctx, rng):
    cases = []
    for idx in range(ctx.budget(80, 800)):
        n = rng.randint(1, 4) if idx < 8 else rng.randint(1, ctx.budget(10, 60))
        with_resid = rng.random() < 0.4
        offset = rng.choice([0, 0, 0, 1, 5])
        keys = list(range(offset, offset + n))
        resids = [rng.randint(1, 3 * n) for _ in keys] if with_resid else [None] * n
        nodes = []
        for k, rid in zip(keys, resids):
            tags = [[rng.choice(LABELS), rng.choice(VALUES)]] if rng.random() < 0.3 else []
            seqid = rng.randint(0, 3) if rng.random() < 0.5 else None
            nodes.append([k, rand_name(rng), rid, seqid, tags])
        edges = []
        seen = set()
        for i in range(1, n):
            u = keys[rng.randrange(i)] if rng.random() < 0.5 else keys[i - 1]
            seen.add((u, keys[i]))
            edges.append([u, keys[i], [["linktype", "circle"]] if rng.random() < 0.1 else []])
        if n >= 3 and rng.random() < 0.3 and (keys[0], keys[-1]) not in seen:
            edges.append([keys[0], keys[-1], [["linktype", "circle"]]])
        in_sorted = [list(x) for x in nodes]
        rng.shuffle(nodes)
        rng.shuffle(edges)
        cases.append(dict(kind="json", nodes=nodes, edges=edges, expect="ok",
                          spec=dict(op="spec_readback", nodes=in_sorted, edges=edges), size=n, fmt="json"))
    return cases


def block_itp(name, names, edges):
    """a .itp moleculetype whose residue graph is (names, edges): two bonded atoms per residue"""
    lines = ["[ moleculetype ]", "%s 1" % name, "[ atoms ]"]
    for i, res in enumerate(names):
        lines.append("%d P1 %d %s A1 %d 0.0" % (2 * i + 1, i + 1, res, 2 * i + 1))
        lines.append("%d P1 %d %s A2 %d 0.0" % (2 * i + 2, i + 1, res, 2 * i + 2))
    lines.append("[ bonds ]")
    for i in range(len(names)):
        lines.append("%d %d 1 0.3 1000" % (2 * i + 1, 2 * i + 2))
    for u, v in edges:
        lines.append("%d %d 1 0.3 1000" % (2 * u + 2, 2 * v + 1))
    return "\n".join(lines) + "\n"


def one_prob(rng):
    return rng.choice(["1", "1.0", "1.", "1.00"])


def gen_genseq_case(ctx, rng, small=False, lenient=False):
    """structured specification -> CLI strings (+ .itp) and the abstract input of the oracle"""
    nmac = rng.randint(1, 3)
    tags_pool = ["A", "B", "C", "blk", "M1"]
    rng.shuffle(tags_pool)
    macros = {}
    macro_strings, from_file, blocks_ff, itp_parts = [], [], [], []
    for tag in tags_pool[:nmac]:
        if rng.random() < 0.25:
            k = rng.randint(1, 4)
            names = [rand_name(rng, " :,-;[]") for _ in range(k)]
            edges = [[rng.randrange(i), i] for i in range(1, k)]
            if k >= 3 and rng.random() < 0.3 and [0, k - 1] not in edges:
                edges.append([0, k - 1])
            mol = "MOL" + tag
            itp_parts.append(block_itp(mol, names, edges))
            from_file.append("%s:%s" % (tag, mol))
            blocks_ff.append([tag, names, edges])
            macros[tag] = dict(file=[names, edges], size=k)
        else:
            levels = rng.randint(1, 2 if small else 4) if rng.random() < 0.95 else 0
            bfact = rng.choice([1, 1, 2, 3, 0]) if not small else rng.choice([1, 2])
            if bfact == 3 and levels == 4:
                levels = 3
            res = rand_name(rng, " :,-")
            mix = [res + "-" + one_prob(rng)]
            for _ in range(rng.choice([0, 0, 1, 2])):
                mix.insert(rng.randint(0, len(mix)), rand_name(rng, " :,-") + "-" + rng.choice(["0", "0.0", "0."]))
            macro_strings.append("%s:%d:%d:%s" % (tag, levels, bfact, ",".join(mix)))
            size = sum(bfact ** i for i in range(levels))
            macros[tag] = dict(tree=[levels, bfact, res], size=size)
    seq = [rng.choice(list(macros)) for _ in range(rng.randint(0 if rng.random() < 0.05 else 1, 2 if small else 5))]
    sizes = [macros[t]["size"] for t in seq]
    spec_blocks = [{k: v for k, v in macros[t].items() if k != "size"} for t in seq]
    connects, spec_connects = [], []
    usable = [i for i, s in enumerate(sizes) if s > 0]
    if usable:
        for _ in range(rng.choice([0, 1, 1, 2, 3])):
            i, j = rng.choice(usable), rng.choice(usable)
            items = []
            for _ in range(rng.choice([1, 1, 2])):
                a, b = rng.randrange(sizes[i]), rng.randrange(sizes[j])
                if i == j and a == b and rng.random() < 0.8:
                    continue
                items.append("%d-%d" % (a, b) if rng.random() < 0.8 else "%d - %d" % (a, b))
                spec_connects.append([i, j, a, b])
            if items:
                connects.append("%d:%d:%s" % (i, j, ",".join(items)))
    mods, spec_mods = [], []
    for _ in range(rng.choice([0, 0, 1, 2])):
        if seq:
            s = rng.randrange(len(seq))
            new = rand_name(rng, ":")
            mods.append("%d:%s" % (s, new))
            spec_mods.append([s, new])
    tags, spec_tags = [], []
    for _ in range(rng.choice([0, 0, 1, 2])):
        if usable:
            s = rng.choice(usable)
            attr, val = rng.choice(LABELS), rng.choice(VALUES)
            mix = [val + "-" + one_prob(rng)]
            if rng.random() < 0.3:
                mix.insert(rng.randint(0, 1), rng.choice(VALUES) + "x-0.0")
            tags.append("%d:%s:%s" % (s, attr, ",".join(mix)))
            spec_tags.append([s, attr, val])
    expect = "ok"
    spec = dict(op="spec_genseq", blocks=spec_blocks, connects=spec_connects, mods=spec_mods, tags=spec_tags)
    if lenient:
        # a label naming no block labels every node in the code: compared with the model only
        tags.append("%d:%s:%s-1" % (len(seq) + rng.randint(0, 2), rng.choice(LABELS), rng.choice(VALUES)))
        expect, spec = None, None
    args = dict(seq=seq, macro_strings=macro_strings, from_file=from_file, connects=connects, modifications=mods,
                tags=tags)
    return dict(kind="genseq", args=args, itp="".join(itp_parts) if itp_parts else None, blocks=blocks_ff,
                expect=expect, spec=spec, size=sum(sizes), fmt="genseq", lenient=lenient,
                shape=dict(tree=any("tree" in b and b["tree"][1] >= 2 and b["tree"][0] >= 2 for b in spec_blocks),
                           file=bool(from_file), connects=len(spec_connects), mods=len(mods), tags=len(tags)))


def malform_genseq(rng, case):
    """break a valid gen_seq specification in one way the code must refuse"""
    args = json.loads(json.dumps(case["args"]))
    nseq = len(args["seq"])
    what = rng.choice(["unknown-macro", "connect-no-block", "connect-no-node", "connect-syntax", "macro-syntax",
                       "macro-nonnumeric", "seq-none", "zero-weights", "modf-syntax", "label-syntax"])
    if what == "unknown-macro":
        args["seq"].insert(rng.randint(0, nseq), "nope")
    elif what == "connect-no-block":
        args["connects"].append("%d:%d:0-0" % (nseq + rng.randint(0, 2), 0) if rng.random() < 0.5 else
                                "0:%d:0-0" % (nseq + rng.randint(0, 2)))
    elif what == "connect-no-node":
        args["connects"].append("0:0:%d-0" % (case["size"] + 50))
        if nseq == 0:
            what = "connect-no-block"
    elif what == "connect-syntax":
        args["connects"].append(rng.choice(["0:0", "0:0:1", "0:0:0-0-0", "0:0:0-0:1", "a:0:0-0", "0:0:x-0"]))
    elif what == "macro-syntax":
        args["macro_strings"].append(rng.choice(["Q:2:1", "Q:2", "Q", "Q:2:1:PEO", "Q:2:1:PEO-1-2"]))
    elif what == "macro-nonnumeric":
        args["macro_strings"].append(rng.choice(["Q:x:1:PEO-1", "Q:2:y:PEO-1", "Q:2:1:PEO-z"]))
    elif what == "seq-none":
        args["seq"] = None
    elif what == "zero-weights":
        args["macro_strings"].append("Q:2:1:PEO-0.0,PS-0")
        args["seq"].append("Q")
    elif what == "modf-syntax":
        args["modifications"].append(rng.choice(["0", "0:A:B", "x:A"]))
    else:
        args["tags"].append(rng.choice(["0:chiral", "0", "0:chiral:R", "x:chiral:R-1", "0:chiral:R-1:Z"]))
    return dict(kind="genseq", args=args, itp=case.get("itp"), blocks=case.get("blocks", []), expect="reject",
                spec=None, size=0, fmt="genseq", malformed=what)


def gen_genseq_cases(ctx, rng):
    cases = []
    # the shapes of the property: linear macro, tree macro, two blocks connected, renamed termini, label
    fixed = [
        dict(seq=["A"], macro_strings=["A:3:1:PEO-1.0"], from_file=[], connects=[], modifications=[], tags=[]),
        dict(seq=["A"], macro_strings=["A:3:2:N-1."], from_file=[], connects=[], modifications=["0:NT"], tags=[]),
        dict(seq=["A", "B"], macro_strings=["A:2:1:PS-1", "B:2:1:PEO-1"], from_file=[], connects=["0:1:1-0"],
             modifications=["1:OH"], tags=["0:chiral:R-1.0"]),
    ]
    specs = [
        dict(op="spec_genseq", blocks=[dict(tree=[3, 1, "PEO"])], connects=[], mods=[], tags=[]),
        dict(op="spec_genseq", blocks=[dict(tree=[3, 2, "N"])], connects=[], mods=[[0, "NT"]], tags=[]),
        dict(op="spec_genseq", blocks=[dict(tree=[2, 1, "PS"]), dict(tree=[2, 1, "PEO"])], connects=[[0, 1, 1, 0]],
             mods=[[1, "OH"]], tags=[[0, "chiral", "R"]]),
    ]
    for args, spec, size in zip(fixed, specs, (3, 7, 4)):
        cases.append(dict(kind="genseq", args=args, itp=None, blocks=[], expect="ok", spec=spec, size=size,
                          fmt="genseq", shape=dict(tree=False, file=False, connects=0, mods=0, tags=0)))
    for _ in range(ctx.budget(15, 60)):
        cases.append(gen_genseq_case(ctx, rng, small=True))
    for _ in range(ctx.budget(300, 4000)):
        cases.append(gen_genseq_case(ctx, rng, lenient=rng.random() < 0.08))
    for _ in range(ctx.budget(80, 600)):
        cases.append(malform_genseq(rng, gen_genseq_case(ctx, rng, small=True)))
    return cases


def tree_requests(ctx):
    """`nx.balanced_tree(r, h)` itself against the model's queue loop and the closed form of the specification"""
    import networkx as nx
    out = []
    top = ctx.budget(5, 7)
    for r in range(0, 5):
        for levels in range(0, top):
            if r ** max(levels - 1, 0) > 3000:
                continue
            graph = nx.balanced_tree(r, levels - 1)
            out.append((dict(op="tree", r=r, levels=levels),
                        dict(n=graph.number_of_nodes(), nodes=sorted(graph.nodes),
                             edges=sorted([min(u, v), max(u, v)] for u, v in graph.edges))))
    return out


# ------------------------------------------------------------------------------------------------ judging

def input_key(inp):
    blob = json.dumps({k: inp.get(k) for k in ("kind", "items", "ext", "text", "nodes", "edges", "args", "itp", "lib")},
                      sort_keys=True, default=str)
    return hashlib.sha1(blob.encode()).hexdigest()[:16]


def replay_of(inp):
    return {k: v for k, v in inp.items() if k not in ("size",)}


def judge(ctx, inp, impl, model, spec):
    kind = inp["kind"]
    replay = replay_of(inp)
    stream = kind if kind != "file" else "file-" + str(inp.get("fmt", "x")).split("-")[0]
    # ---- correspondence: model of the code vs the code
    if kind in ("seq", "file"):
        impl_obs = dict(ok=impl["ok"], graph=impl.get("graph"))
        model_obs = dict(ok=model["ok"], graph=canon_rgraph(model["graph"]) if model["ok"] else None)
    elif kind == "json" and "ext" in inp:
        impl_obs = dict(ok=impl["ok"], graph=impl.get("graph"))
        model_obs = dict(ok=model["ok"], graph=canon_rgraph(model["graph"]) if model["ok"] else None)
    elif kind == "json":
        impl_obs = dict(ok=impl["ok"], graph=impl.get("graph"), labelled=impl.get("labelled"))
        model_obs = dict(ok=model["ok"], graph=canon_rgraph(model["graph"]) if model["ok"] else None,
                         labelled=fill_resid(canon_sgraph(model["sgraph"])) if model["ok"] else None)
    else:
        impl_obs = dict(ok=impl["ok"], written=impl.get("written"),
                        read=impl["read"].get("graph") if impl["ok"] and impl["read"]["ok"] else None)
        model_obs = dict(ok=model["ok"], written=canon_sgraph(model["sgraph"]) if model["ok"] else None,
                         read=canon_rgraph(model["graph"]) if model["ok"] else None)
    ctx.correspond(stream, impl_obs, model_obs, replay)
    # ---- oracle: the property, evaluated by the Lean specification
    expect = inp.get("expect")
    if expect == "reject":
        if impl["ok"]:
            ctx.oracle_fail("accepts-malformed-" + str(inp.get("malformed")),
                            "malformed input (%s) was accepted: %s" % (inp.get("malformed"), short(replay)), replay)
    elif expect == "ok":
        if spec is None or not spec.get("ok"):
            ctx.tie_broken("generator", "generator:" + stream, "the specification rejects a generated valid input: %s"
                           % short(replay), replay)
        elif not impl["ok"]:
            ctx.oracle_fail(stream + "-rejects-valid", "valid input rejected with %s: %s" % (impl["err"], short(replay)),
                            replay)
        elif kind in ("seq", "file"):
            want = canon_rgraph(spec["graph"])
            if impl["graph"] != want:
                ctx.oracle_fail(shape_of(inp, impl["graph"], want), "residue graph differs from the stated sequence: got %s want %s for %s"
                                % (short(impl["graph"]), short(want), short(replay)), replay)
        elif kind == "json":
            want = canon_rgraph(spec["graph"])
            want_l = fill_resid(canon_sgraph(spec["sgraph"]))
            if impl["graph"] != want or impl["labelled"] != want_l:
                ctx.oracle_fail("json-not-same-graph", "a node-link .json is not read as the labelled graph it denotes: got %s want %s"
                                % (short(impl["labelled"]), short(want_l)), replay)
        else:
            want_w = canon_sgraph(spec["sgraph"])
            want_r = canon_rgraph(spec["graph"])
            if impl["written"] != want_w:
                ctx.oracle_fail("genseq-wrong-graph", "gen_seq wrote %s, the specification states %s for %s"
                                % (short(impl["written"]), short(want_w), short(inp["args"])), replay)
            elif not impl["read"]["ok"]:
                ctx.oracle_fail("genseq-json-unreadable", "the .json written by gen_seq cannot be read back: %s (%s)"
                                % (impl["read"]["err"], short(inp["args"])), replay)
            elif strip_resid(impl["read"]["labelled"]) != impl["written"] or impl["read"]["graph"] != want_r:
                ctx.oracle_fail("genseq-roundtrip-differs", "gen_seq's .json is read back as %s, written was %s"
                                % (short(impl["read"]["labelled"]), short(impl["written"])), replay)
    size = inp.get("size", 0)
    key = (kind, input_key(inp)) if size >= 2 else None
    hist = dict(kind=stream, n=("0" if size == 0 else "1" if size == 1 else "2" if size == 2 else "3-12" if size <= 12 else ">12"),
                expect=str(expect))
    if inp.get("malformed"):
        hist["malformed"] = inp["malformed"]
    if inp.get("alpha"):
        hist["alphabet"] = inp["alpha"]
    if inp.get("fmt", "").endswith("circular"):
        hist["circular"] = True
    if inp.get("exhaustive"):
        hist["exhaustive"] = inp["exhaustive"]
    if inp.get("shape"):
        for k, v in inp["shape"].items():
            hist["genseq_" + k] = (v if isinstance(v, bool) else min(v, 3))
    ctx.case(key, sample=dict(input=short(replay, 400), impl=short(impl, 300)), **hist)


def shape_of(inp, got, want):
    fmt = str(inp.get("fmt", inp["kind"]))
    if not got["nodes"] and want["nodes"]:
        return fmt + "-empty-graph"
    if [n[2] for n in got["nodes"]] != [n[2] for n in want["nodes"]]:
        return fmt + "-wrong-names"
    if got["edges"] != want["edges"]:
        return fmt + "-wrong-edges"
    return fmt + "-wrong-numbering"


def fill_resid(labelled):
    """the MetaMolecule gives every node a resid (default key + 1)"""
    nodes = [[n[0], n[1], n[2] if n[2] is not None else n[0] + 1, n[3], n[4]] for n in labelled["nodes"]]
    return dict(nodes=nodes, edges=labelled["edges"])


def strip_resid(labelled):
    nodes = [[n[0], n[1], None, n[3], n[4]] for n in labelled["nodes"]]
    return dict(nodes=nodes, edges=labelled["edges"])


def short(obj, limit=700):
    text = json.dumps(obj, default=str)
    return text if len(text) <= limit else text[:limit] + "..."


def run_cases(ctx, inputs):
    impls = [run_impl(inp) for inp in inputs]
    reqs = []
    for inp in inputs:
        reqs.append(model_request(inp))
        if inp.get("spec"):
            reqs.append(inp["spec"])
    answers = ctx.driver.ask(reqs)
    pos = 0
    for inp, impl in zip(inputs, impls):
        model = answers[pos]
        pos += 1
        spec = None
        if inp.get("spec"):
            spec = answers[pos]
            pos += 1
        if not model.get("ok") and str(model.get("err", "")).startswith("protocol"):
            raise common.DriverError("driver protocol error: %s on %s" % (model.get("err"), short(inp)))
        judge(ctx, inp, impl, model, spec)


# ------------------------------------------------------------------------------------------------ entry points
# "A -seq list, a .txt/.fasta/.ig/.json file ... yields a residue graph": the same inputs through `gen_params` itself
# (function and command `polyply gen_params`), the residue graph read back from the written .itp (residues in order of
# appearance; two residues are joined iff a bond joins atoms of them), and gen_seq through the command `polyply gen_seq`.

def itp_residue_graph(path):
    section, residues, of_atom, edges = None, [], {}, set()
    with open(path) as handle:
        for line in handle:
            line = line.split(";")[0].strip()
            if not line:
                continue
            if line.startswith("["):
                section = line.strip("[] \t")
                continue
            fields = line.split()
            if section == "atoms":
                res = [int(fields[2]), fields[3]]
                if not residues or residues[-1] != res:
                    residues.append(res)
                of_atom[fields[0]] = len(residues) - 1
            elif section in ("bonds", "constraints") and len(fields) >= 2:
                a, b = of_atom.get(fields[0]), of_atom.get(fields[1])
                if a is not None and b is not None and a != b:
                    edges.add((min(a, b), max(a, b)))
    return dict(residues=residues, edges=sorted(list(e) for e in edges))


def impl_gen_params(inp, entry):
    from polyply.src.gen_itp import gen_params
    tmp = workdir()
    out = fresh(tmp / "out.itp")
    path = None
    try:
        if inp["kind"] == "file":
            path = fresh(tmp / ("s." + inp["ext"]))
            path.write_text(inp["text"])
        if entry == "cli":
            argv = ["gen_params", "-name", "mol", "-lib", "parmbsc1", "-o", str(out)]
            argv += ["-seq"] + list(inp["items"]) if inp["kind"] == "seq" else ["-seqf", str(path)]
            run_cli(argv)
        else:
            gen_params(name="mol", outpath=out, inpath=[], lib=["parmbsc1"],
                       seq=list(inp["items"]) if inp["kind"] == "seq" else None, seq_file=path)
        return dict(ok=True, **itp_residue_graph(out))
    except Exception as err:  # pylint: disable=broad-except
        return dict(ok=False, err=type(err).__name__ + ": " + str(err)[:200])
    finally:
        for item in (out, path):
            if item is not None and item.exists():
                item.unlink()


def gen_entry_cases(ctx, rng, file_cases):
    """valid DNA inputs of every format (the residue names must exist in a library for gen_params to finish)"""
    pool = [c for c in file_cases if c.get("alpha") == "dna" and c.get("expect") == "ok" and 2 <= c.get("size", 0) <= 12
            and c["ext"].lower() in ("fasta", "ig")]
    picked = []
    for fmt in ("fasta", "ig", "ig-circular"):
        cand = [c for c in pool if c["fmt"] == fmt and (fmt != "ig-circular" or c["size"] >= 3)]
        rng.shuffle(cand)
        picked += cand[:ctx.budget(2, 12)]
    inner = ["DA", "DC", "DG", "DT"]
    for _ in range(ctx.budget(2, 10)):
        n = rng.randint(2, 6)
        names = [rng.choice(inner) for _ in range(n)]
        names[0] += "5"
        names[-1] += "3"
        items, k = [], 0
        while k < n:                                   # "-seq DA5:1 DC:2 ..." with runs grouped
            j = k
            while j + 1 < n and names[j + 1] == names[k]:
                j += 1
            items.append("%s:%d" % (names[k], j - k + 1))
            k = j + 1
        picked.append(dict(kind="seq", items=items, expect="ok", spec=dict(op="spec_linear", names=names), size=n))
        text = "\n".join(" ".join(names[i:i + 3]) for i in range(0, n, 3)) + "\n"
        picked.append(dict(kind="file", ext="txt", text=text, fmt="txt", expect="ok",
                           spec=dict(op="spec_linear", names=names), size=n))
    cases = [(c, "function") for c in picked]
    cli = list(picked)
    rng.shuffle(cli)
    cases += [(c, "cli") for c in cli[:ctx.budget(2, 12)]]
    return cases


def run_entry_points(ctx, cases):
    if not cases:
        return
    impls = [impl_gen_params(c, entry) for c, entry in cases]
    reqs = []
    for c, _ in cases:
        reqs += [model_request(c), c["spec"]]
    answers = ctx.driver.ask(reqs)
    for i, ((c, entry), impl) in enumerate(zip(cases, impls)):
        model, spec = answers[2 * i], answers[2 * i + 1]
        replay = dict(c, entry="gen_params-" + entry)

        def reduced(ans):
            if not ans.get("ok"):
                return dict(ok=False)
            pos = {n[0]: k for k, n in enumerate(ans["graph"]["nodes"])}
            return dict(ok=True, residues=[[n[1], n[2]] for n in ans["graph"]["nodes"]],
                        edges=sorted(sorted([pos[e[0]], pos[e[1]]]) for e in ans["graph"]["edges"]))
        got = dict(ok=impl["ok"], residues=impl.get("residues"), edges=impl.get("edges")) if impl["ok"] else dict(ok=False)
        ctx.correspond("gen_params-entry-point", got, reduced(model), replay)
        want = reduced(spec)
        if want["ok"] and got != want:
            ctx.oracle_fail("gen-params-entry-wrong-graph", "gen_params (%s) on %s wrote residues %s joined %s, the input "
                            "states residues %s joined %s" % (entry, short(c), impl.get("residues", impl.get("err")),
                                                              impl.get("edges"), want["residues"], want["edges"]), replay)
        ctx.case(("entry", entry, json.dumps(short(c), sort_keys=True, default=str)), kind="gen_params-entry",
                 entry_point=entry, fmt=c.get("fmt", c["kind"]))


def run_trees(ctx):
    pairs = tree_requests(ctx)
    answers = ctx.driver.ask([req for req, _ in pairs])
    for (req, real), ans in zip(pairs, answers):
        model = dict(n=ans["n"], edges=sorted([min(u, v), max(u, v)] for u, v in ans["edges"]))
        ctx.correspond("balanced_tree", dict(n=real["n"], edges=real["edges"]), model, req)
        want = sorted([min(u, v), max(u, v)] for u, v in ans["spec_edges"])
        if req["r"] >= 1 and (real["edges"] != want or real["nodes"] != list(range(ans["n"]))):
            ctx.oracle_fail("tree-shape", "nx.balanced_tree(%d, %d) is not the tree j -> (j-1)//r" % (req["r"], req["levels"] - 1), req)
        ctx.case(("tree", req["r"], req["levels"]) if real["n"] >= 2 else None, kind="balanced_tree",
                 n=("0" if real["n"] == 0 else "1" if real["n"] == 1 else "2" if real["n"] == 2 else "3-12" if real["n"] <= 12 else ">12"))


# ------------------------------------------------------------------------------------------------ round 5: exhaustive
# enumeration of the small finite domains (quick tier; tallied as `exhaustive=<what>`)

FILLER = {"A": "C"}     # a neighbour letter that is in all three alphabets and differs from the letter under test


def fixed_text(fmt, alpha, lines, ter="", ter_own_line=False, final=True):
    """a deterministic file: header/comment + title, the sequence lines, the terminator"""
    if fmt == "fasta":
        out = [">seq " + KEYWORD[alpha]] + list(lines)
    else:
        body = list(lines)
        if ter_own_line or not body:
            body.append(ter)
        else:
            body[-1] += ter
        out = ["; " + KEYWORD[alpha] + " test", "title"] + body
    return "\n".join(out) + ("\n" if final else "")


def exhaustive_case(fmt, alpha, letters, lines, circular, tag, ter_own_line=False, final=True, expect="ok"):
    text = fixed_text(fmt, alpha, lines, ("2" if circular else "1") if fmt == "ig" else "", ter_own_line, final)
    if expect == "ok" and not letters and alpha != "aa":
        expect = "reject"
    spec = dict(op="spec_seqfile", alphabet=alpha, circular=circular, letters=letters) if expect == "ok" else None
    case = dict(kind="file", ext=fmt, text=text, fmt=fmt + ("-circular" if circular else ""), alpha=alpha, expect=expect,
                spec=spec, size=len(letters), exhaustive=tag)
    if expect == "reject":
        case["malformed"] = "unknown-letter" if letters else "empty-nucleic"
    return case


def compositions(n):
    """all ways to break a sequence of n letters into non-empty lines"""
    if n == 0:
        return [[]]
    out = []
    for mask in range(2 ** (n - 1)):
        parts, cur = [], 1
        for i in range(n - 1):
            if mask >> i & 1:
                parts.append(cur)
                cur = 1
            else:
                cur += 1
        parts.append(cur)
        out.append(parts)
    return out


def gen_exhaustive_file_cases(ctx):
    import string
    cases = []
    shapes = [("fasta", False), ("ig", False), ("ig", True)]
    # (1) every one-letter code x position class x format
    for alpha in ("dna", "rna", "aa"):
        for letter in LETTERS[alpha]:
            fill = FILLER.get(letter, "A")
            for cls, letters in (("single", letter), ("first", letter + fill + fill), ("middle", fill + letter + fill),
                                 ("last", fill + fill + letter)):
                for fmt, circ in shapes:
                    cases.append(exhaustive_case(fmt, alpha, letters, [letters], circ, "letter-x-position-x-format"))
    # (2) every other ASCII letter and digit is refused (the terminators 1/2 are compared with the model only)
    for alpha in ("dna", "rna", "aa"):
        for char in string.ascii_letters + string.digits:
            if char in LETTERS[alpha]:
                continue
            letters = "A" + char + "C"
            for fmt, circ in (("fasta", False), ("ig", False)):
                case = exhaustive_case(fmt, alpha, letters, [letters], circ, "non-alphabet-char", expect="reject")
                if char in "12" and fmt == "ig":
                    case.update(expect=None, lenient=True)
                    case.pop("malformed")
                cases.append(case)
    # (3) all alphabets x terminator x terminator placement x every line breaking, lengths 0..4 (quick) / ..6
    top = ctx.budget(4, 6)
    for alpha in ("dna", "rna", "aa"):
        pool = LETTERS[alpha]
        for n in range(0, top + 1):
            letters = "".join(pool[(3 * i + n) % len(pool)] for i in range(n))
            for parts in compositions(n):
                lines, pos = [], 0
                for k in parts:
                    lines.append(letters[pos:pos + k])
                    pos += k
                for final in (True, False):
                    cases.append(exhaustive_case("fasta", alpha, letters, lines, False, "line-breaking", final=final))
                    for circ in (False, True):
                        if circ and n == 0:
                            continue      # empty circular sequence: node -1, outside the model
                        for own in (False, True):
                            cases.append(exhaustive_case("ig", alpha, letters, lines, circ, "line-breaking",
                                                         ter_own_line=own, final=final))
    return cases


SUFFIXES = ["txt", "fasta", "ig", "json"]
NEAR_MISS = ["", "tx", "txtt", "text", "t xt", "fa", "fas", "fast", "fastaa", "i", "igg", "gi", "jso", "jsonl", "json5",
             "jsn", "seq", "dat", "itp", "gro", "py", "txt~", "ig1"]


def gen_dispatch_cases():
    """every recognised suffix in every capitalisation class, and near misses, through from_sequence_file"""
    cases = []
    content = {"txt": "PEO PEO\nOH\n", "fasta": ">DNA\nACG\n", "ig": "; DNA\ntitle\nACG1\n"}
    specs = {"txt": dict(op="spec_linear", names=["PEO", "PEO", "OH"]),
             "fasta": dict(op="spec_seqfile", alphabet="dna", circular=False, letters="ACG"),
             "ig": dict(op="spec_seqfile", alphabet="dna", circular=False, letters="ACG")}
    nodes = [[1, "B", None, None, []], [0, "A", None, None, []]]
    edges = [[0, 1, []]]
    for suffix in SUFFIXES:
        variants = sorted({suffix, suffix.upper(), suffix.capitalize(), suffix[0] + suffix[1:].upper(),
                           "".join(c.upper() if i % 2 else c for i, c in enumerate(suffix))})
        for ext in variants:
            if suffix == "json":
                cases.append(dict(kind="json", ext=ext, nodes=nodes, edges=edges, expect="ok", fmt="json", size=2,
                                  spec=dict(op="spec_readback", nodes=sorted(nodes), edges=edges), exhaustive="suffix-dispatch"))
            else:
                cases.append(dict(kind="file", ext=ext, text=content[suffix], fmt=suffix, expect="ok", spec=specs[suffix],
                                  size=3, exhaustive="suffix-dispatch"))
    for ext in NEAR_MISS:
        cases.append(dict(kind="file", ext=ext, text=content["txt"], fmt="txt", expect="reject", spec=None, size=0,
                          malformed="unknown-extension", exhaustive="suffix-dispatch"))
        cases.append(dict(kind="json", ext=ext, nodes=nodes, edges=edges, expect="reject", fmt="json", size=0, spec=None,
                          malformed="unknown-extension", exhaustive="suffix-dispatch"))
    # a node-link document under a text suffix / text under .json must not be read as the other kind
    cases.append(dict(kind="file", ext="json", text=content["txt"], fmt="txt", expect="reject", spec=None, size=0,
                      malformed="text-under-json", exhaustive="suffix-dispatch"))
    return cases


def run_dispatch_table(ctx):
    """`MetaMolecule.parsers` itself against `Seq.parserFor` (the generated table), every suffix above"""
    from polyply.src.meta_molecule import MetaMolecule
    from polyply.src import simple_seq_parsers
    exts = sorted({e for s in SUFFIXES for e in (s, s.upper(), s.capitalize())} | set(NEAR_MISS))
    answers = ctx.driver.ask([dict(op="dispatch", ext=e) for e in exts])
    for ext, ans in zip(exts, answers):
        func = MetaMolecule.parsers.get(ext.casefold())
        names = sorted(n for n in dir(simple_seq_parsers) if n.startswith("parse_") and getattr(simple_seq_parsers, n) is func) \
            if func is not None else []
        ctx.correspond("suffix-table", names[0] if names else None, ans.get("parser"), dict(kind="dispatch", ext=ext))
        want = "parse_" + ext.casefold() if ext.casefold() in SUFFIXES else None
        if (names[0] if names else None) != want:
            ctx.oracle_fail("suffix-dispatch-wrong-parser", "suffix %r is served by %r, the property names %r"
                            % (ext, names[0] if names else None, want), dict(kind="dispatch", ext=ext))
        ctx.case(None, kind="suffix-table", exhaustive="suffix-dispatch")


# ------------------------------------------------------------------------------------------------ round 5: the parts of
# gen_seq / simple_seq_parsers driven DIRECTLY (not only through gen_seq(...) / from_sequence_file)

def rand_graph(rng, maxn=8):
    """an arbitrary labelled graph: distinct non-contiguous keys, blocks interleaved, nodes without seqid, edges"""
    n = rng.randint(0 if rng.random() < 0.05 else 1, maxn)
    keys = rng.sample(range(0, 25), n)
    seqids = [rng.choice([None, 0, 0, 1, 1, 2, 5]) for _ in keys]
    nodes = [[k, rng.choice(NAMES[:8]), None, sid, []] for k, sid in zip(keys, seqids)]
    edges, seen = [], set()
    for _ in range(rng.randint(0, n + 1)):
        if n == 0:
            break
        u, v = rng.choice(keys), rng.choice(keys)
        if u == v and rng.random() < 0.7:
            continue
        if (min(u, v), max(u, v)) in seen:
            continue
        seen.add((min(u, v), max(u, v)))
        edges.append([u, v, []])
    return nodes, edges


def nx_of(nodes, edges):
    import networkx as nx
    graph = nx.Graph()
    for key, resname, resid, seqid, tags in nodes:
        attrs = dict(resname=resname)
        if resid is not None:
            attrs["resid"] = resid
        if seqid is not None:
            attrs["seqid"] = seqid
        attrs.update({k: v for k, v in tags})
        graph.add_node(key, **attrs)
    for u, v, attrs in edges:
        graph.add_edge(u, v, **{k: val for k, val in attrs})
    return graph


def canon_nx(graph):
    return canon_labelled(((k, dict(graph.nodes[k])) for k in graph.nodes), graph.edges(data=True))


def block_nodes(nodes, sid):
    return [n[0] for n in nodes if n[3] == sid]


def degree_of(edges, key):
    return sum((u == key) + (v == key) for u, v, _ in edges)


BAD_ITEMS = ["", "1", "1-", "-1", "1-2-3", "x-1", "1-y", "1.0-2", "1_2"]


def gen_direct_cases(ctx, rng):
    cases = []
    # ---- _add_edges on arbitrary graphs: indices hit the block sizes exactly
    for _ in range(ctx.budget(250, 2500)):
        nodes, edges = rand_graph(rng)
        i, j = rng.choice([0, 1, 2, 5, 7]), rng.choice([0, 1, 2, 5, 7])
        bi, bj = block_nodes(nodes, i), block_nodes(nodes, j)
        items, expect_edges, ok = [], [], True
        for _ in range(rng.choice([1, 1, 2, 3])):
            a = rng.choice([0, max(len(bi) - 1, 0), len(bi), len(bi) + 1, rng.randint(0, 3)])
            b = rng.choice([0, max(len(bj) - 1, 0), len(bj), len(bj) + 1, rng.randint(0, 3)])
            items.append(rng.choice(["%d-%d", "%d-%d", " %d-%d", "%d - %d", "%d -%d "]) % (a, b))
            if a < len(bi) and b < len(bj):
                expect_edges.append([bi[a], bj[b]])
            else:
                ok = False
        malformed = None
        if rng.random() < 0.12:
            items.insert(rng.randint(0, len(items)), rng.choice(BAD_ITEMS))
            ok, malformed = False, "connect-syntax"
        cases.append(dict(kind="add_edges", nodes=nodes, edges=edges, text=",".join(items), i=i, j=j,
                          expect="ok" if ok else "reject", expect_edges=expect_edges, malformed=malformed))
    # ---- _apply_termini_modifications / _find_terminal_nodes on arbitrary graphs
    for _ in range(ctx.budget(200, 2000)):
        nodes, edges = rand_graph(rng)
        mods, parsed, ok = [], [], True
        for _ in range(rng.choice([0, 1, 1, 2, 3])):
            sid, name = rng.choice([0, 1, 2, 5, 7]), rand_name(rng, ":")
            mods.append("%d:%s" % (sid, name))
            parsed.append((sid, name))
        if rng.random() < 0.1:
            mods.insert(rng.randint(0, len(mods)), rng.choice(["0", "0:A:B", "x:A", ":A", ""]))
            ok = False
        cases.append(dict(kind="apply_mods", nodes=nodes, edges=edges, mods=mods, parsed=parsed,
                          expect="ok" if ok else "reject"))
    # ---- _tag_nodes on arbitrary graphs
    for _ in range(ctx.budget(200, 2000)):
        nodes, edges = rand_graph(rng)
        tags, parsed, ok, lenient = [], [], True, False
        for _ in range(rng.choice([0, 1, 1, 2, 3])):
            sid, attr, val = rng.choice([0, 1, 2, 5, 7]), rng.choice(LABELS), rng.choice(VALUES)
            mix = [val + "-" + one_prob(rng)]
            for _ in range(rng.choice([0, 0, 1])):
                mix.insert(rng.randint(0, len(mix)), rng.choice(VALUES) + "x-" + rng.choice(["0", "0.0", "0."]))
            tags.append("%d:%s:%s" % (sid, attr, ",".join(mix)))
            parsed.append((sid, attr, val))
            if not block_nodes(nodes, sid):
                lenient = True          # a label naming no block labels every node: model only
        if rng.random() < 0.1:
            tags.insert(rng.randint(0, len(tags)), rng.choice(["0:chiral", "0", "0:chiral:R", "x:chiral:R-1", "0:c:R-1:Z",
                                                              "0:c:R-1,", "0:c:R-x"]))
            ok = False
        cases.append(dict(kind="apply_tags", nodes=nodes, edges=edges, tags=tags, parsed=parsed,
                          expect=None if (lenient and ok) else ("ok" if ok else "reject")))
    return cases


WEIGHT_ONE = ["1", "1.0", "1.", "1.00", ".5", "0.25", "2", "10"]
WEIGHT_ZERO = ["0", "0.0", "0.", ".0", "00"]
BAD_MACROS = ["", "Q", "Q:2", "Q:2:1", "Q:2:1:", "Q:2:1:PEO", "Q:2:1:PEO-1-2", "Q:2:1:PEO-1,", "Q:2:1:,PEO-1", "Q:x:1:PEO-1",
              "Q:2:y:PEO-1", "Q:2:1:PEO-z", "Q::1:PEO-1", "Q:2::PEO-1", "Q:2:1:PEO-", "Q:2:1:PEO-.", "Q:2:1:PEO-1.0.0",
              "Q:2.0:1:PEO-1", "Q:2:1.5:PEO-1", "Q:2:1:-", "Q;2;1;PEO-1", "Q:2:1:PEO=1"]


def gen_macro_cases(ctx, rng):
    """abstract macros -> rendered by the Lean specification side -> the REAL MacroString; plus free spellings"""
    cases = []
    shapes = [(lv, bf) for lv in range(0, 5) for bf in range(0, 4) if not (bf == 3 and lv == 4)]
    for lv, bf in shapes:                      # exhaustive over the (levels, branching) grid
        cases.append(dict(kind="macro", abstract=dict(name=rng.choice(["A", "blk", "M1"]), levels=lv, bfact=bf,
                                                      probs=[[rand_name(rng, " :,-"), True]]), exhaustive="levels-x-branching"))
    for _ in range(ctx.budget(120, 1500)):
        k = rng.randint(1, 4)
        pos = rng.randrange(k)
        probs = [[rand_name(rng, " :,-"), i == pos] for i in range(k)]
        if rng.random() < 0.08:
            probs = [[p[0], False] for p in probs]      # zero total weight: gen_graph must refuse
        lv = rng.choice([0, 1, 2, 3, 4, 12 if rng.random() < 0.1 else 2])
        bf = rng.choice([0, 1, 1, 2, 3]) if lv <= 4 else 1
        if bf == 3 and lv == 4:
            lv = 3
        case = dict(kind="macro", abstract=dict(name=rand_name(rng, " :"), levels=lv, bfact=bf, probs=probs))
        if rng.random() < 0.4:
            # free spelling of the same macro: other weight notations, trailing fields (ignored by the code)
            text = "%s:%d:%d:%s" % (case["abstract"]["name"], lv, bf,
                                    ",".join("%s-%s" % (nm, rng.choice(WEIGHT_ONE if w else WEIGHT_ZERO)) for nm, w in probs))
            if rng.random() < 0.2:
                text += ":" + rng.choice(["", "x", "1:2"])
            case["text"] = text
        cases.append(case)
    for text in BAD_MACROS:
        cases.append(dict(kind="macro", text=text, abstract=None, expect="reject", exhaustive="malformed-macro-strings"))
    return cases


def gen_identify_cases():
    """every subset of the three keywords x arrangement; every flag combination x every capital letter"""
    import itertools
    import string
    cases = []
    keys = ["DNA", "RNA", "PROTEIN"]
    for r in range(0, 4):
        for subset in itertools.combinations(keys, r):
            want = None if ("DNA" in subset and "RNA" in subset) or not subset else \
                ["DNA" in subset, "RNA" in subset, "PROTEIN" in subset]
            arrangements = [[" ".join(subset)], ["my " + w + " seq" for w in subset] + ["", "x"],
                            ["pre" + "".join(subset) + "post"], list(reversed(["a " + w for w in subset])) + ["title"]]
            for comments in arrangements:
                cases.append(dict(kind="identify", comments=comments, want=want, exhaustive="keyword-subsets"))
            # other capitalisation is not a keyword
            cases.append(dict(kind="identify", comments=[" ".join(w.lower() for w in subset) or "none"], want=None,
                              exhaustive="keyword-subsets"))
    cases.append(dict(kind="identify", comments=[], want=None, exhaustive="keyword-subsets"))
    for flags in itertools.product([False, True], repeat=3):
        for char in string.ascii_uppercase:
            cases.append(dict(kind="parse_plain", flags=list(flags), lines=[char + "\n"], exhaustive="flags-x-letter"))
        cases.append(dict(kind="parse_plain", flags=list(flags), lines=["AC\n", " GT \n", "\n", "VLK"], exhaustive="flags-x-letter"))
        cases.append(dict(kind="parse_plain", flags=list(flags), lines=[], exhaustive="flags-x-letter"))
    return cases


def impl_direct(inp):
    module = importlib.import_module("polyply.src.gen_seq")
    parsers = importlib.import_module("polyply.src.simple_seq_parsers")
    kind = inp["kind"]
    try:
        if kind == "add_edges":
            graph = nx_of(inp["nodes"], inp["edges"])
            module._add_edges(graph, inp["text"], inp["i"], inp["j"])  # pylint: disable=protected-access
            return dict(ok=True, graph=canon_nx(graph))
        if kind == "apply_mods":
            graph = nx_of(inp["nodes"], inp["edges"])
            terminal = sorted(module._find_terminal_nodes(graph))  # pylint: disable=protected-access
            module._apply_termini_modifications(graph, list(inp["mods"]))  # pylint: disable=protected-access
            return dict(ok=True, graph=canon_nx(graph), terminal=terminal)
        if kind == "apply_tags":
            graph = nx_of(inp["nodes"], inp["edges"])
            module._tag_nodes(graph, list(inp["tags"]))  # pylint: disable=protected-access
            return dict(ok=True, graph=canon_nx(graph))
        if kind == "macro":
            macro = module.MacroString(inp["text"])
            res = dict(ok=True, name=macro.name, levels=macro.levels, bfact=macro.bfact,
                       probs=[[str(n), float(w) > 0] for n, w in zip(macro.residues, macro.weights)])
            try:
                graph = macro.gen_graph()
                keys = sorted(graph.nodes)
                res["graph"] = dict(keys=keys, names=[graph.nodes[k].get("resname") for k in keys],
                                    edges=sorted([min(u, v), max(u, v)] for u, v in graph.edges))
            except Exception:  # pylint: disable=broad-except
                res["graph"] = None
            return res
        if kind == "identify":
            flags = parsers._identify_residues(list(inp["comments"]))  # pylint: disable=protected-access
            return dict(ok=True, flags=[bool(f) for f in flags])
        if kind == "parse_plain":
            dna, rna, aa = inp["flags"]
            graph = parsers._parse_plain(list(inp["lines"]), DNA=dna, RNA=rna, AA=aa)  # pylint: disable=protected-access
            return dict(ok=True, graph=canon_nx(graph))
    except common.DriverError:
        raise
    except Exception as err:  # pylint: disable=broad-except
        return dict(ok=False, err=type(err).__name__ + ": " + str(err)[:200])
    raise common.DriverError("unknown direct case kind %r" % kind)


def direct_request(inp):
    kind = inp["kind"]
    if kind == "add_edges":
        return dict(op="add_edges", nodes=inp["nodes"], edges=inp["edges"], text=inp["text"], i=inp["i"], j=inp["j"])
    if kind == "apply_mods":
        return dict(op="apply_mods", nodes=inp["nodes"], edges=inp["edges"], mods=inp["mods"])
    if kind == "apply_tags":
        return dict(op="apply_tags", nodes=inp["nodes"], edges=inp["edges"], tags=inp["tags"])
    if kind == "macro":
        return dict(op="macro", text=inp["text"])
    if kind == "identify":
        return dict(op="identify", comments=inp["comments"])
    return dict(op="parse_plain", flags=inp["flags"], lines=inp["lines"])


def expected_graph(inp):
    """the property's own statement for the direct graph operations, computed here from the parsed request"""
    nodes = [list(n) for n in inp["nodes"]]
    edges = [list(e) for e in inp["edges"]]
    if inp["kind"] == "add_edges":
        have = {(min(u, v), max(u, v)) for u, v, _ in edges}
        for u, v in inp["expect_edges"]:
            if (min(u, v), max(u, v)) not in have:
                have.add((min(u, v), max(u, v)))
                edges.append([u, v, []])
    elif inp["kind"] == "apply_mods":
        for node in nodes:
            hits = [name for sid, name in inp["parsed"] if node[3] == sid and degree_of(inp["edges"], node[0]) == 1]
            if hits:
                node[1] = hits[-1]
    else:
        for node in nodes:
            tags = {}
            for sid, attr, val in inp["parsed"]:
                if node[3] == sid:
                    tags[attr] = val
            node[4] = [[k, v] for k, v in tags.items()]
    return canon_sgraph(dict(nodes=nodes, edges=edges))


def run_direct(ctx, cases):
    """render (Lean specification side) -> real code -> model; all driver requests in two batches"""
    # batch 1: render the abstract macros
    todo = [c for c in cases if c["kind"] == "macro" and "text" not in c]
    answers = ctx.driver.ask([dict(op="render", what="macro", **c["abstract"]) for c in todo])
    for case, ans in zip(todo, answers):
        ab = case["abstract"]
        python_text = "%s:%d:%d:%s" % (ab["name"], ab["levels"], ab["bfact"],
                                       ",".join("%s-%s" % (nm, "1" if w else "0") for nm, w in ab["probs"]))
        ctx.correspond("render-macro", python_text, ans["text"], dict(kind="macro", abstract=ab))
        case["text"] = ans["text"]
        case["rendered"] = True
    impls = [impl_direct(c) for c in cases]
    answers = ctx.driver.ask([direct_request(c) for c in cases])
    for inp, impl, model in zip(cases, impls, answers):
        if not model.get("ok") and str(model.get("err", "")).startswith("protocol"):
            raise common.DriverError("driver protocol error: %s on %s" % (model.get("err"), short(inp)))
        judge_direct(ctx, inp, impl, model)


def judge_direct(ctx, inp, impl, model):
    kind = inp["kind"]
    replay = {k: v for k, v in inp.items() if k not in ("rendered",)}
    hist = dict(kind=kind)
    if inp.get("exhaustive"):
        hist["exhaustive"] = inp["exhaustive"]
    key = None
    if kind in ("add_edges", "apply_mods", "apply_tags"):
        impl_obs = dict(ok=impl["ok"], graph=impl.get("graph"))
        model_obs = dict(ok=model["ok"], graph=canon_sgraph(model["sgraph"]) if model["ok"] else None)
        if kind == "apply_mods":
            impl_obs["terminal"] = impl.get("terminal")
            model_obs["terminal"] = sorted(model["terminal"]) if model["ok"] else None
        ctx.correspond("gen_seq." + {"add_edges": "_add_edges", "apply_mods": "_apply_termini_modifications",
                                     "apply_tags": "_tag_nodes"}[kind], impl_obs, model_obs, replay)
        expect = inp.get("expect")
        if expect == "reject" and impl["ok"]:
            ctx.oracle_fail("direct-%s-accepts-malformed" % kind, "%s accepted a request it must refuse (%s): %s"
                            % (kind, inp.get("malformed") or "index out of range / syntax", short(replay)), replay)
        elif expect == "ok":
            want = expected_graph(inp)
            if not impl["ok"]:
                ctx.oracle_fail("direct-%s-rejects-valid" % kind, "%s refused a valid request with %s: %s"
                                % (kind, impl["err"], short(replay)), replay)
            elif impl["graph"] != want:
                ctx.oracle_fail("direct-%s-wrong-graph" % kind, "%s gave %s, the request states %s (%s)"
                                % (kind, short(impl["graph"]), short(want), short(replay)), replay)
        hist["expect"] = str(expect)
        if len(inp["nodes"]) >= 2:
            key = (kind, input_key(dict(kind=kind, nodes=inp["nodes"], edges=inp["edges"],
                                        text=inp.get("text") or inp.get("mods") or inp.get("tags"), args=[inp.get("i"), inp.get("j")])))
    elif kind == "macro":
        def obs(res, graph):
            return dict(ok=res["ok"], name=res.get("name"), levels=res.get("levels"), bfact=res.get("bfact"),
                        probs=res.get("probs"), graph=graph) if res["ok"] else dict(ok=False)
        impl_graph = None
        if impl["ok"] and impl["graph"] is not None:
            impl_graph = dict(names=impl["graph"]["names"], edges=impl["graph"]["edges"],
                              keys_ok=impl["graph"]["keys"] == list(range(len(impl["graph"]["keys"]))))
        model_graph = None
        if model["ok"] and model["graph"] is not None:
            model_graph = dict(names=model["graph"]["names"], edges=sorted([min(u, v), max(u, v)] for u, v in model["graph"]["edges"]),
                               keys_ok=True)
        ctx.correspond("gen_seq.MacroString", obs(impl, impl_graph), obs(model, model_graph), replay)
        ab = inp.get("abstract")
        if ab is None:
            if impl["ok"]:
                ctx.oracle_fail("macro-accepts-malformed", "MacroString accepted the malformed definition %r" % inp["text"], replay)
        else:
            want = dict(name=ab["name"], levels=ab["levels"], bfact=ab["bfact"], probs=[list(p) for p in ab["probs"]])
            got = {k: impl.get(k) for k in want} if impl["ok"] else "raised " + impl["err"]
            if got != want:
                ctx.oracle_fail("macro-roundtrip", "the macro %s written as %r is read by MacroString as %s"
                                % (short(want), inp["text"], short(got)), replay)
            certain = [nm for nm, w in ab["probs"] if w]
            size = sum(ab["bfact"] ** i for i in range(ab["levels"]))
            if impl["ok"] and len(certain) == 1 and ab["bfact"] >= 1 and ab["levels"] >= 1:
                tree = sorted([(j - 1) // ab["bfact"], j] for j in range(1, size))
                if impl_graph != dict(names=[certain[0]] * size, edges=tree, keys_ok=True):
                    ctx.oracle_fail("macro-wrong-tree", "the macro %r generates %s, not %d residues %s on the tree j -> (j-1)//%d"
                                    % (inp["text"], short(impl_graph), size, certain[0], ab["bfact"]), replay)
            if size >= 2:
                key = ("macro", inp["text"])
        hist["expect"] = "reject" if ab is None else "ok"
    elif kind == "identify":
        ctx.correspond("_identify_residues", dict(ok=impl["ok"], flags=impl.get("flags")),
                       dict(ok=model["ok"], flags=model.get("flags")), replay)
        got = impl.get("flags") if impl["ok"] else None
        if got != inp["want"]:
            ctx.oracle_fail("identify-wrong-alphabet", "comments %r are identified as %s, stated: %s (DNA, RNA, PROTEIN)"
                            % (inp["comments"], got, inp["want"]), replay)
        key = ("identify", json.dumps(inp["comments"]))
    else:
        ctx.correspond("_parse_plain", dict(ok=impl["ok"], graph=impl.get("graph")),
                       dict(ok=model["ok"], graph=canon_sgraph(model["sgraph"]) if model["ok"] else None), replay)
        key = ("parse_plain", json.dumps([inp["flags"], inp["lines"]]))
    ctx.case(key, sample=None, **hist)


def gen_fromfile_cases(ctx, rng):
    """gen_seq with the -from_file strings handed to the model unparsed; malformed / unknown block names"""
    cases = []
    wanted = ctx.budget(40, 300)
    tries = 0
    while len(cases) < wanted and tries < 40 * wanted:
        tries += 1
        case = gen_genseq_case(ctx, rng, small=rng.random() < 0.5)
        if not case["blocks"]:
            continue
        case["lib"] = [["MOL" + tag, names, edges] for tag, names, edges in case["blocks"]]
        case["fmt"] = "genseq"
        if rng.random() < 0.5:
            args = json.loads(json.dumps(case["args"]))
            what = rng.choice(["from-file-syntax", "from-file-unknown-block"])
            k = rng.randrange(len(args["from_file"]))
            tag = args["from_file"][k].split(":")[0]
            args["from_file"][k] = rng.choice([tag, tag + ":MOL" + tag + ":x", ":".join([tag] * 3)]) \
                if what == "from-file-syntax" else tag + ":" + rng.choice(["NOPE", "mol" + tag, "MOL" + tag + "x", ""])
            case = dict(kind="genseq", args=args, itp=case["itp"], blocks=case["blocks"], lib=case["lib"], expect="reject",
                        spec=None, size=0, fmt="genseq", malformed=what)
        cases.append(case)
    return cases


def corpus_cases():
    path = os.path.join(common.VERIF, "corpus", "C12")
    out = []
    if os.path.isdir(path):
        for name in sorted(os.listdir(path)):
            if name.endswith(".json"):
                data = json.load(open(os.path.join(path, name)))
                out.append(data.get("input", data))
    return out


def run(ctx):
    ctx.extra["rule"] = RULE
    ctx.extra["trusted"] = [
        "Python str.strip/split/readlines, int(), float() on the generated ASCII inputs (modelled by Seq.strip/splitOn/readLines/parseNat?/parseWeight?)",
        "random.choices with exactly one positive weight (modelled as the certain choice)",
        "networkx balanced_tree / disjoint_union / degree / node_link_data / node_link_graph, json.dump/load (modelled; tied by the correspondence on the real write->read composition)",
        "vermouth make_residue_graph + polyply .itp reader for -from_file blocks (parameter: residue names in order, edges by position)",
        "vermouth.parser_utils.split_comments default comment sign (read from the installed library by the translator)",
        "translator harness/tables/seq.py (ast patterns; cross-validated by probing the live functions)",
    ]
    ctx.extra["explanation"] = ("theorems (all lengths, by induction): C12_tables, C12_linear_shape, C12_linear, C12_linear_parsers, "
                                "C12_linear_txt, C12_translate, C12_termini, C12_fasta, C12_circular, C12_circular_shape, C12_ig, C12_tree, "
                                "C12_tree_zero, C12_tree_size, C12_union_offsets, C12_connect, C12_connects, C12_genseq, "
                                "C12_json_roundtrip, C12_json_sorted; round 5: C12_anchor_suffixes, C12_anchor_ig, C12_anchor_circle, "
                                "C12_anchor_fasta, C12_anchor_keywords, C12_letters_vs_special, C12_anchor_genseq (all depend on the "
                                "generated SeqTables), C12_dispatch, C12_macro_roundtrip, C12_macro_graph, C12_records_roundtrip, "
                                "C12_connect_iff, C12_add_edges_text, C12_terminal_iff, C12_modifications_frame, C12_tag_frame; "
                                "the oracle is the Lean specification (Seq.spec*) evaluated on "
                                "the abstract input the files / command lines were rendered from; for the direct streams the oracle "
                                "recomputes the stated graph from the parsed request in the harness")
    ctx.assumptions += [
        "inputs are ASCII; .txt tokens contain no whitespace; integers in command strings are plain decimal digits",
        "residue mixes and labels have exactly one positive weight (random mixes are outside the quantifier)",
        "an empty circular .ig sequence is not generated (the code would address node -1)",
        "a single nucleotide gets both terminal suffixes (DA -> DA53): modelled as the code does, not judged a violation",
        "a -label naming no block labels every node in the code: compared with the model only, not judged",
    ]
    rng = ctx.rng
    inputs = corpus_cases()
    inputs += gen_seq_cases(ctx, rng)
    file_cases = gen_file_cases(ctx, rng)
    inputs += file_cases
    inputs += gen_json_cases(ctx, rng)
    genseq_cases = gen_genseq_cases(ctx, rng)
    inputs += genseq_cases
    # command-level entry point of gen_seq: the same kind of cases through `polyply gen_seq` (cwd with decoys)
    cli_pool = [c for c in genseq_cases if c.get("expect") == "ok" and c.get("size", 0) >= 2]
    rng.shuffle(cli_pool)
    inputs += [dict(c, entry="cli") for c in cli_pool[:ctx.budget(3, 20)]]
    entry_cases = gen_entry_cases(ctx, rng, file_cases)
    # round 5: exhaustive enumeration of the small finite domains + the -from_file strings
    exhaustive = gen_exhaustive_file_cases(ctx) + gen_dispatch_cases()
    ctx.tally(exhaustive_file_cases=len(exhaustive))
    inputs += exhaustive
    inputs += gen_fromfile_cases(ctx, rng)
    run_trees(ctx)
    run_dispatch_table(ctx)
    run_cases(ctx, inputs)
    run_entry_points(ctx, entry_cases)
    # round 5: MacroString / _add_edges / _apply_termini_modifications / _tag_nodes / _identify_residues /
    # _parse_plain driven directly
    run_direct(ctx, gen_macro_cases(ctx, rng) + gen_identify_cases() + gen_direct_cases(ctx, rng))
    # report the smallest failing input of every shape first
    ctx.failures.sort(key=lambda f: len(json.dumps(f["replay"], default=str)))


def replay(ctx, data):
    inp = data.get("input") or {}
    if data.get("kind") == "no-failing-input-found":
        print("replay names obligations that no longer check:")
        inputs = []
        for item in data.get("no_longer_checks", []):
            print("  ", item["name"], "-", item["detail"][:300])
            if item.get("input") and "kind" in item["input"]:
                inputs.append(item["input"])
    else:
        inputs = [inp]
    run_cases(ctx, [i for i in inputs if i.get("kind") in ("seq", "file", "json", "genseq")
                    and not str(i.get("entry", "")).startswith("gen_params-")])
    run_entry_points(ctx, [({k: v for k, v in i.items() if k != "entry"}, i["entry"].split("-", 1)[1]) for i in inputs
                           if str(i.get("entry", "")).startswith("gen_params-")])
    direct = [i for i in inputs if i.get("kind") in ("add_edges", "apply_mods", "apply_tags", "macro", "identify", "parse_plain")]
    for i in direct:
        if i.get("kind") == "macro" and i.get("rendered"):
            i.pop("text", None)
    if direct:
        run_direct(ctx, direct)
    if any(i.get("kind") == "dispatch" for i in inputs):
        run_dispatch_table(ctx)
    for b in ctx.broken:
        print("REPLAY-DISAGREES", b["name"], b["detail"][:400])
